/-
Lemmas for C15: correctness of the model of `dominator_tree.rs` with respect to the path
definitions of `Spec/Graph.lean`. Core Lean only.
-/
import Circomspect.Model.Dominators

namespace Circomspect.DominatorLemmas
open Circomspect Graph Dominators


theorem path_lt {g : Graph} (hpos : 0 < g.n) {i : Nat} {π : List Nat} (h : Path g i π) : ∀ d ∈ π, d < g.n := by
  induction h with
  | root => intro d hd; simp at hd; omega
  | step _ _ hi ih =>
    intro d hd
    rcases List.mem_cons.mp hd with e | e
    · omega
    · exact ih d e

theorem path_head {g : Graph} {i : Nat} {π : List Nat} (h : Path g i π) : i ∈ π := by
  cases h <;> simp

theorem dom_refl (g : Graph) (i : Nat) : Dom g i i := fun _ h => path_head h

/-- a dominator of `i` other than `i` dominates every predecessor of `i` -/
theorem dom_pred {g : Graph} {d i j : Nat} (hd : Dom g d i) (hne : d ≠ i) (hj : j ∈ g.pred i) (hi : i < g.n) :
    Dom g d j := by
  intro π hπ
  have := hd (i :: π) (Path.step hπ hj hi)
  rcases List.mem_cons.mp this with e | e
  · exact absurd e hne
  · exact e

def Sound (g : Graph) (D : Sets) : Prop := ∀ i d, i < g.n → d < g.n → Dom g d i → D i d = true
def Bounded (g : Graph) (D : Sets) : Prop := ∀ i d, D i d = true → d < g.n

theorem init_sound (g : Graph) : Sound g (init g) := by
  intro i d hi hd hdom
  unfold init
  by_cases h0 : i = 0
  · subst h0
    have := hdom [0] Path.root
    simp at this; simp [this]
  · simp [h0, hd]

theorem init_bounded (g : Graph) (hpos : 0 < g.n) : Bounded g (init g) := by
  intro i d h
  unfold init at h
  by_cases h0 : i = 0
  · simp [h0] at h; omega
  · simpa [h0] using h

theorem update_sound (g : Graph) (hcl : ∀ i, i < g.n → ∀ j ∈ g.pred i, j < g.n) (D : Sets) (i : Nat)
    (hi : i < g.n) (h : Sound g D) : Sound g (update D i (newDom g D i)) := by
  intro k d hk hd hdom
  unfold update
  by_cases hki : k = i
  · subst hki
    simp only [if_true]
    unfold newDom
    by_cases hdk : d = k
    · simp [hdk]
    · have : (g.pred k).all (fun j => D j d) = true := by
        rw [List.all_eq_true]
        intro j hj
        exact h j d (hcl k hk j hj) hd (dom_pred hdom hdk hj hk)
      simp [hd, this]
  · simp only [hki, if_false]
    exact h k d hk hd hdom

theorem update_bounded (g : Graph) (D : Sets) (i : Nat) (hi : i < g.n) (h : Bounded g D) :
    Bounded g (update D i (newDom g D i)) := by
  intro k d hkd
  unfold update at hkd
  by_cases hki : k = i
  · subst hki
    simp only [if_true] at hkd
    unfold newDom at hkd
    simp only [Bool.or_eq_true, Bool.and_eq_true, beq_iff_eq, decide_eq_true_eq] at hkd
    rcases hkd with e | ⟨e, _⟩
    · omega
    · exact e
  · simp only [hki, if_false] at hkd
    exact h k d hkd

/-- generic fold lemma for `pass`: an invariant preserved by every update is preserved by a pass -/
theorem pass_inv (g : Graph) (P : Sets → Prop)
    (hstep : ∀ D i, 1 ≤ i → i < g.n → P D → P (update D i (newDom g D i))) :
    ∀ D, P D → P (pass g D).1 := by
  intro D hD
  unfold pass
  have : ∀ (l : List Nat) (acc : Sets × Bool), (∀ i ∈ l, 1 ≤ i ∧ i < g.n) → P acc.1 →
      P (l.foldl (fun (acc : Sets × Bool) i =>
        let nw := newDom g acc.1 i
        if differs g.n nw (acc.1 i) then (update acc.1 i nw, true) else acc) acc).1 := by
    intro l
    induction l with
    | nil => intro acc _ h; exact h
    | cons i l ih =>
      intro acc hl h
      simp only [List.foldl_cons]
      apply ih
      · intro k hk; exact hl k (List.mem_cons_of_mem _ hk)
      · have hi := hl i List.mem_cons_self
        by_cases hd : differs g.n (newDom g acc.1 i) (acc.1 i) = true
        · simp only [hd, if_true]; exact hstep _ _ hi.1 hi.2 h
        · simp only [hd]; exact h
  apply this _ _ _ hD
  intro i hi
  rw [List.mem_range'_1] at hi
  omega


def passStep (g : Graph) (acc : Sets × Bool) (i : Nat) : Sets × Bool :=
  let nw := newDom g acc.1 i
  if differs g.n nw (acc.1 i) then (update acc.1 i nw, true) else acc

theorem pass_eq_fold (g : Graph) (D : Sets) :
    pass g D = (List.range' 1 (g.n - 1)).foldl (passStep g) (D, false) := rfl

theorem fold_flag_false (g : Graph) : ∀ (l : List Nat) (acc : Sets × Bool),
    (l.foldl (passStep g) acc).2 = false →
    acc.2 = false ∧ (l.foldl (passStep g) acc).1 = acc.1 ∧
    ∀ i ∈ l, differs g.n (newDom g acc.1 i) (acc.1 i) = false := by
  intro l
  induction l with
  | nil => intro acc h; exact ⟨h, rfl, by simp⟩
  | cons i l ih =>
    intro acc h
    simp only [List.foldl_cons] at h ⊢
    obtain ⟨h1, h2, h3⟩ := ih _ h
    by_cases hd : differs g.n (newDom g acc.1 i) (acc.1 i) = true
    · have e : passStep g acc i = (update acc.1 i (newDom g acc.1 i), true) := by
        unfold passStep; simp only [hd, if_true]
      rw [e] at h1; cases h1
    · have e : passStep g acc i = acc := by
        unfold passStep; simp only [hd]; rfl
      rw [e] at h1 h2 h3
      refine ⟨h1, by rw [e]; exact h2, ?_⟩
      intro k hk
      rcases List.mem_cons.mp hk with e' | e'
      · subst e'; simpa using hd
      · exact h3 k e'

theorem differs_false {n : Nat} {s t : Nat → Bool} (h : differs n s t = false) :
    ∀ d, d < n → s d = t d := by
  intro d hd
  unfold differs at h
  rw [List.any_eq_false] at h
  have := h d (List.mem_range.mpr hd)
  simpa using this

/-- at a fixpoint of the loop every set is its own update -/
theorem fixpoint_eqs (g : Graph) (D : Sets) (h : (pass g D).2 = false) :
    (pass g D).1 = D ∧ ∀ i, 1 ≤ i → i < g.n → ∀ d, d < g.n → newDom g D i d = D i d := by
  rw [pass_eq_fold] at h ⊢
  obtain ⟨_, h2, h3⟩ := fold_flag_false g _ _ h
  refine ⟨h2, ?_⟩
  intro i h1 hi d hd
  exact differs_false (h3 i (by rw [List.mem_range'_1]; omega)) d hd

/-- `D 0` is never written -/
def EntryOnly (D : Sets) : Prop := ∀ d, D 0 d = (d == 0)

theorem update_entry (g : Graph) (D : Sets) (i : Nat) (hi : 1 ≤ i) (h : EntryOnly D) :
    EntryOnly (update D i (newDom g D i)) := by
  intro d; unfold update
  have : ¬ (0 = i) := by omega
  simp only [this, if_false]; exact h d

/-- completeness at a fixpoint: whatever is left in `D i` lies on every path to `i` -/
theorem fixpoint_complete (g : Graph) (hentry : g.pred 0 = []) (D : Sets) (h0 : EntryOnly D)
    (hb : Bounded g D)
    (hfix : ∀ i, 1 ≤ i → i < g.n → ∀ d, d < g.n → newDom g D i d = D i d) :
    ∀ i π, Path g i π → ∀ d, D i d = true → d ∈ π := by
  intro i π hπ
  induction hπ with
  | root => intro d hd; rw [h0 d] at hd; simp at hd; simp [hd]
  | @step j i π hj hji hi ih =>
    intro d hd
    have hi1 : 1 ≤ i := by
      rcases Nat.eq_zero_or_pos i with e | e
      · subst e; rw [hentry] at hji; cases hji
      · exact e
    have hdn := hb i d hd
    rw [← hfix i hi1 hi d hdn] at hd
    unfold newDom at hd
    simp only [Bool.or_eq_true, Bool.and_eq_true, beq_iff_eq, decide_eq_true_eq, List.all_eq_true] at hd
    rcases hd with e | ⟨_, hall⟩
    · simp [e]
    · exact List.mem_cons_of_mem _ (ih d (hall j hji))


def card (n : Nat) (s : Nat → Bool) : Nat := (List.range n).countP s
def mu (g : Graph) (D : Sets) : Nat := ((List.range g.n).map (fun i => card g.n (D i))).sum

theorem countP_le_of_imp (l : List Nat) (s t : Nat → Bool) (h : ∀ d ∈ l, s d = true → t d = true) :
    l.countP s ≤ l.countP t := by
  induction l with
  | nil => simp
  | cons a l ih =>
    have ih' := ih (fun d hd => h d (List.mem_cons_of_mem _ hd))
    have ha := h a List.mem_cons_self
    simp only [List.countP_cons]
    cases hs : s a <;> cases ht : t a <;> simp_all <;> omega

theorem countP_lt_of_imp (l : List Nat) (s t : Nat → Bool) (h : ∀ d ∈ l, s d = true → t d = true)
    (hex : ∃ d ∈ l, s d ≠ t d) : l.countP s < l.countP t := by
  induction l with
  | nil => obtain ⟨d, hd, _⟩ := hex; cases hd
  | cons a l ih =>
    have hle := countP_le_of_imp l s t (fun d hd => h d (List.mem_cons_of_mem _ hd))
    have ha := h a List.mem_cons_self
    simp only [List.countP_cons]
    obtain ⟨d, hd, hne⟩ := hex
    rcases List.mem_cons.mp hd with e | e
    · subst e
      cases hs : s d <;> cases ht : t d <;> simp_all <;> omega
    · have := ih (fun d hd => h d (List.mem_cons_of_mem _ hd)) ⟨d, e, hne⟩
      cases hs : s a <;> cases ht : t a <;> simp_all <;> omega

theorem card_le (n : Nat) (s : Nat → Bool) : card n s ≤ n := by
  unfold card
  have := List.countP_le_length (p := s) (l := List.range n)
  simpa using this

theorem sum_map_le (l : List Nat) (f : Nat → Nat) (b : Nat) (h : ∀ i ∈ l, f i ≤ b) :
    (l.map f).sum ≤ l.length * b := by
  induction l with
  | nil => simp
  | cons a l ih =>
    have := ih (fun i hi => h i (List.mem_cons_of_mem _ hi))
    have ha := h a List.mem_cons_self
    simp only [List.map_cons, List.sum_cons, List.length_cons, Nat.succ_mul]
    omega

theorem mu_le (g : Graph) (D : Sets) : mu g D ≤ g.n * g.n := by
  unfold mu
  have := sum_map_le (List.range g.n) (fun i => card g.n (D i)) g.n (fun i _ => card_le _ _)
  simpa using this

/-- changing one summand -/
theorem sum_update_lt (l : List Nat) (hnd : l.Nodup) (f f' : Nat → Nat) (i : Nat) (hi : i ∈ l)
    (hsame : ∀ k, k ≠ i → f' k = f k) (hlt : f' i < f i) : (l.map f').sum < (l.map f).sum := by
  induction l with
  | nil => cases hi
  | cons a l ih =>
    simp only [List.map_cons, List.sum_cons]
    have hnd' := (List.nodup_cons.mp hnd)
    rcases List.mem_cons.mp hi with e | e
    · subst e
      have : (l.map f') = (l.map f) := by
        apply List.map_congr_left
        intro k hk
        exact hsame k (by intro e; subst e; exact hnd'.1 hk)
      rw [this]; omega
    · have hne : a ≠ i := by intro e'; subst e'; exact hnd'.1 e
      have := ih hnd'.2 e
      rw [hsame a hne]; omega

theorem mu_update_lt (g : Graph) (D : Sets) (i : Nat) (hi : i < g.n) (s : Nat → Bool)
    (hlt : card g.n s < card g.n (D i)) : mu g (update D i s) < mu g D := by
  unfold mu
  apply sum_update_lt (List.range g.n) (List.nodup_range) _ _ i (List.mem_range.mpr hi)
  · intro k hk; simp [update, hk]
  · simp [update]; exact hlt

/-- every set only ever shrinks: the update of a set is contained in it -/
def Pre (g : Graph) (D : Sets) : Prop :=
  ∀ i, 1 ≤ i → i < g.n → ∀ d, d < g.n → newDom g D i d = true → D i d = true

theorem init_pre (g : Graph) : Pre g (init g) := by
  intro i h1 hi d hd _
  unfold init
  have : ¬ i = 0 := by omega
  simp [this, hd]

theorem newDom_mono (g : Graph) (D D' : Sets) (h : ∀ k d, D' k d = true → D k d = true) (i d : Nat) :
    newDom g D' i d = true → newDom g D i d = true := by
  unfold newDom
  simp only [Bool.or_eq_true, Bool.and_eq_true, beq_iff_eq, decide_eq_true_eq, List.all_eq_true]
  intro hh
  rcases hh with e | ⟨e1, e2⟩
  · exact Or.inl e
  · exact Or.inr ⟨e1, fun j hj => h j d (e2 j hj)⟩

theorem update_pre (g : Graph) (D : Sets) (i : Nat) (h1 : 1 ≤ i) (hi : i < g.n) (h : Pre g D) :
    Pre g (update D i (newDom g D i)) := by
  have hsub : ∀ k d, d < g.n → update D i (newDom g D i) k d = true → D k d = true := by
    intro k d hd hk
    unfold update at hk
    by_cases e : k = i
    · subst e; simp only [if_true] at hk; exact h k h1 hi d hd hk
    · simpa [e] using hk
  intro k hk1 hk d hd hnew
  -- newDom w.r.t. the updated sets is contained in newDom w.r.t. the old ones
  have hold : newDom g D k d = true := by
    unfold newDom at hnew ⊢
    simp only [Bool.or_eq_true, Bool.and_eq_true, beq_iff_eq, decide_eq_true_eq, List.all_eq_true] at hnew ⊢
    rcases hnew with e | ⟨e1, e2⟩
    · exact Or.inl e
    · exact Or.inr ⟨e1, fun j hj => hsub j d hd (e2 j hj)⟩
  unfold update
  by_cases e : k = i
  · subst e; simp only [if_true]; exact hold
  · simp only [e, if_false]; exact h k hk1 hk d hd hold

theorem differs_true {n : Nat} {s t : Nat → Bool} (h : differs n s t = true) : ∃ d, d < n ∧ s d ≠ t d := by
  unfold differs at h
  rw [List.any_eq_true] at h
  obtain ⟨d, hd, hne⟩ := h
  exact ⟨d, List.mem_range.mp hd, by simpa using hne⟩

theorem step_mu (g : Graph) (D : Sets) (i : Nat) (h1 : 1 ≤ i) (hi : i < g.n) (h : Pre g D)
    (hd : differs g.n (newDom g D i) (D i) = true) : mu g (update D i (newDom g D i)) < mu g D := by
  apply mu_update_lt g D i hi
  unfold card
  apply countP_lt_of_imp
  · intro d hd' hs; exact h i h1 hi d (List.mem_range.mp hd') hs
  · obtain ⟨d, hdn, hne⟩ := differs_true hd
    exact ⟨d, List.mem_range.mpr hdn, hne⟩

theorem fold_mu (g : Graph) (D0 : Sets) : ∀ (l : List Nat) (acc : Sets × Bool),
    (∀ i ∈ l, 1 ≤ i ∧ i < g.n) → Pre g acc.1 → mu g acc.1 ≤ mu g D0 → (acc.2 = true → mu g acc.1 < mu g D0) →
    Pre g (l.foldl (passStep g) acc).1 ∧ mu g (l.foldl (passStep g) acc).1 ≤ mu g D0 ∧
    ((l.foldl (passStep g) acc).2 = true → mu g (l.foldl (passStep g) acc).1 < mu g D0) := by
  intro l
  induction l with
  | nil => intro acc _ h1 h2 h3; exact ⟨h1, h2, h3⟩
  | cons i l ih =>
    intro acc hl h1 h2 h3
    simp only [List.foldl_cons]
    have hi := hl i List.mem_cons_self
    apply ih _ (fun k hk => hl k (List.mem_cons_of_mem _ hk))
    all_goals (by_cases hd : differs g.n (newDom g acc.1 i) (acc.1 i) = true)
    · have e : passStep g acc i = (update acc.1 i (newDom g acc.1 i), true) := by
        unfold passStep; simp only [hd, if_true]
      rw [e]; exact update_pre g _ i hi.1 hi.2 h1
    · have e : passStep g acc i = acc := by unfold passStep; simp only [hd]; rfl
      rw [e]; exact h1
    · have e : passStep g acc i = (update acc.1 i (newDom g acc.1 i), true) := by
        unfold passStep; simp only [hd, if_true]
      rw [e]; have := step_mu g acc.1 i hi.1 hi.2 h1 hd; simp only; omega
    · have e : passStep g acc i = acc := by unfold passStep; simp only [hd]; rfl
      rw [e]; exact h2
    · have e : passStep g acc i = (update acc.1 i (newDom g acc.1 i), true) := by
        unfold passStep; simp only [hd, if_true]
      rw [e]; intro _; have := step_mu g acc.1 i hi.1 hi.2 h1 hd; simp only; omega
    · have e : passStep g acc i = acc := by unfold passStep; simp only [hd]; rfl
      rw [e]; exact h3

theorem pass_mu (g : Graph) (D : Sets) (h : Pre g D) :
    Pre g (pass g D).1 ∧ ((pass g D).2 = true → mu g (pass g D).1 < mu g D) := by
  rw [pass_eq_fold]
  have := fold_mu g D (List.range' 1 (g.n - 1)) (D, false)
    (by intro i hi; rw [List.mem_range'_1] at hi; omega) h (Nat.le_refl _) (by intro e; cases e)
  exact ⟨this.1, this.2.2⟩

/-- the `while !done` loop terminates: `n*n + 1` passes always suffice -/
theorem iterate_terminates (g : Graph) : ∀ (fuel : Nat) (D : Sets), Pre g D → mu g D < fuel →
    ∃ D', iterate g fuel D = some D' := by
  intro fuel
  induction fuel with
  | zero => intro D _ h; omega
  | succ f ih =>
    intro D hp hmu
    unfold iterate
    by_cases hc : (pass g D).2 = true
    · simp only [hc, if_true]
      have := pass_mu g D hp
      exact ih _ this.1 (by have := this.2 hc; omega)
    · simp only [hc]; exact ⟨_, rfl⟩


theorem iterate_result (g : Graph) (hcl : ∀ i, i < g.n → ∀ j ∈ g.pred i, j < g.n) :
    ∀ (fuel : Nat) (D D' : Sets), iterate g fuel D = some D' → Sound g D → Bounded g D → EntryOnly D →
    Sound g D' ∧ Bounded g D' ∧ EntryOnly D' ∧
    (∀ i, 1 ≤ i → i < g.n → ∀ d, d < g.n → newDom g D' i d = D' i d) := by
  intro fuel
  induction fuel with
  | zero => intro D D' h; simp [iterate] at h
  | succ f ih =>
    intro D D' h hs hb he
    unfold iterate at h
    by_cases hc : (pass g D).2 = true
    · simp only [hc, if_true] at h
      exact ih _ _ h
        (pass_inv g (Sound g) (fun D i _ hi h => update_sound g hcl D i hi h) D hs)
        (pass_inv g (Bounded g) (fun D i _ hi h => update_bounded g D i hi h) D hb)
        (pass_inv g EntryOnly (fun D i h1 _ h => update_entry g D i h1 h) D he)
    · have hc' : (pass g D).2 = false := by simpa using hc
      simp only [hc] at h
      injection h with h
      obtain ⟨e, hfix⟩ := fixpoint_eqs g D hc'
      rw [e] at h; subst h
      exact ⟨hs, hb, he, hfix⟩

theorem init_entry (g : Graph) : EntryOnly (init g) := by intro d; simp [init]

/-- what `compute_dominators` returns, for a rooted graph -/
def DomSets (g : Graph) (D : Sets) : Prop := ∀ i, i < g.n → ∀ d, D i d = true ↔ Dom g d i

theorem computeDominators_correct (g : Graph) (hr : Rooted g) :
    ∃ D, computeDominators g = some D ∧ DomSets g D := by
  unfold computeDominators
  obtain ⟨D, hD⟩ := iterate_terminates g (g.n * g.n + 1) (init g) (init_pre g) (by have := mu_le g (init g); omega)
  refine ⟨D, hD, ?_⟩
  obtain ⟨hs, hb, he, hfix⟩ := iterate_result g hr.closed _ _ _ hD (init_sound g) (init_bounded g hr.pos) (init_entry g)
  intro i hi d
  constructor
  · intro h π hπ
    exact fixpoint_complete g hr.entry D he hb hfix i π hπ d h
  · intro h
    obtain ⟨π, hπ⟩ := hr.reach i hi
    exact hs i d hi (path_lt hr.pos hπ d (h π hπ)) h


theorem path_cons {g : Graph} {i : Nat} {π : List Nat} (h : Path g i π) : ∃ t, π = i :: t := by
  cases h with
  | root => exact ⟨[], rfl⟩
  | step _ _ _ => exact ⟨_, rfl⟩

theorem path_zero_mem {g : Graph} {i : Nat} {π : List Nat} (h : Path g i π) : 0 ∈ π := by
  induction h with
  | root => simp
  | step _ _ _ ih => exact List.mem_cons_of_mem _ ih

/-- the part of a path up to an intermediate node is a path to that node -/
theorem subpath {g : Graph} {i : Nat} {π : List Nat} (h : Path g i π) :
    ∀ b, b ∈ π → ∃ π', Path g b π' ∧ (∀ x ∈ π', x ∈ π) ∧ π'.length ≤ π.length ∧ (b ≠ i → π'.length < π.length) := by
  induction h with
  | root =>
    intro b hb
    simp at hb; subst hb
    exact ⟨[0], Path.root, by simp, by simp, by simp⟩
  | @step j i π hj hji hi ih =>
    intro b hb
    by_cases e : b = i
    · subst e
      exact ⟨b :: π, Path.step hj hji hi, by simp, by simp, by simp⟩
    · have hb' : b ∈ π := by
        rcases List.mem_cons.mp hb with e' | e'
        · exact absurd e' e
        · exact e'
      obtain ⟨π', hp, hsub, hlen, _⟩ := ih b hb'
      exact ⟨π', hp, fun x hx => List.mem_cons_of_mem _ (hsub x hx), by simp; omega, fun _ => by simp; omega⟩

theorem dom_trans {g : Graph} {a b c : Nat} (hab : Dom g a b) (hbc : Dom g b c) : Dom g a c := by
  intro π hπ
  obtain ⟨π', hp, hsub, _, _⟩ := subpath hπ b (hbc π hπ)
  exact hsub a (hab π' hp)

theorem dom_antisymm_aux {g : Graph} {a b : Nat} (hne : a ≠ b) (hab : Dom g a b) (hba : Dom g b a) :
    ∀ n (π : List Nat), π.length ≤ n → Path g a π → False := by
  intro n
  induction n with
  | zero =>
    intro π hl hπ
    obtain ⟨t, e⟩ := path_cons hπ
    subst e; simp at hl
  | succ n ih =>
    intro π hl hπ
    obtain ⟨π1, hp1, _, _, hlt1⟩ := subpath hπ b (hba π hπ)
    obtain ⟨π2, hp2, _, _, hlt2⟩ := subpath hp1 a (hab π1 hp1)
    have h1 := hlt1 (fun e => hne e.symm)
    have h2 := hlt2 hne
    exact ih π2 (by omega) hp2

theorem dom_antisymm {g : Graph} {a b : Nat} (hr : Reachable g a) (hab : Dom g a b) (hba : Dom g b a) : a = b := by
  apply Classical.byContradiction
  intro hne
  obtain ⟨π, hπ⟩ := hr
  exact dom_antisymm_aux hne hab hba π.length π (Nat.le_refl _) hπ

theorem path_inv {g : Graph} {i : Nat} {π : List Nat} (h : Path g i π) :
    (i = 0 ∧ π = [0]) ∨ ∃ j t, π = i :: t ∧ Path g j t ∧ j ∈ g.pred i ∧ i < g.n := by
  cases h with
  | root => exact Or.inl ⟨rfl, rfl⟩
  | step hj hji hi => exact Or.inr ⟨_, _, rfl, hj, hji, hi⟩

/-- replacing the initial part of a path (up to a node `x`) by any other path to `x` -/
theorem path_splice {g : Graph} : ∀ (front : List Nat) (x : Nat) (back σ : List Nat) (i : Nat),
    Path g i (front ++ x :: back) → Path g x (x :: σ) → Path g i (front ++ x :: σ) := by
  intro front
  induction front with
  | nil =>
    intro x back σ i h hσ
    simp only [List.nil_append] at h ⊢
    obtain ⟨t, e⟩ := path_cons h
    injection e with e1 _
    subst e1; exact hσ
  | cons f front ih =>
    intro x back σ i h hσ
    simp only [List.cons_append] at h ⊢
    rcases path_inv h with ⟨_, e⟩ | ⟨j, t, e, hj, hji, hi⟩
    · injection e with _ e2
      have : (front ++ x :: back).length = 0 := by rw [e2]; rfl
      simp at this
    · injection e with e1 e2
      subst e1; subst e2
      exact Path.step (ih x back σ _ hj hσ) hji hi

theorem first_occurrence (a b : Nat) : ∀ (ρ : List Nat), (a ∈ ρ ∨ b ∈ ρ) →
    ∃ front x back, ρ = front ++ x :: back ∧ (x = a ∨ x = b) ∧ a ∉ front ∧ b ∉ front := by
  intro ρ
  induction ρ with
  | nil => intro h; rcases h with h | h <;> cases h
  | cons c ρ ih =>
    intro h
    by_cases hc : c = a ∨ c = b
    · exact ⟨[], c, ρ, rfl, hc, by simp, by simp⟩
    · have hc' : c ≠ a ∧ c ≠ b := by
        constructor
        · intro e; exact hc (Or.inl e)
        · intro e; exact hc (Or.inr e)
      have h' : a ∈ ρ ∨ b ∈ ρ := by
        rcases h with h | h
        · rcases List.mem_cons.mp h with e | e
          · exact absurd e.symm hc'.1
          · exact Or.inl e
        · rcases List.mem_cons.mp h with e | e
          · exact absurd e.symm hc'.2
          · exact Or.inr e
      obtain ⟨front, x, back, e, hx, ha, hb⟩ := ih h'
      refine ⟨c :: front, x, back, by simp [e], hx, ?_, ?_⟩
      · intro hm; rcases List.mem_cons.mp hm with e' | e'
        · exact hc'.1 e'.symm
        · exact ha e'
      · intro hm; rcases List.mem_cons.mp hm with e' | e'
        · exact hc'.2 e'.symm
        · exact hb e'

/-- the dominators of a reachable node form a chain -/
theorem dom_chain {g : Graph} {a b i : Nat} (hr : Reachable g i) (ha : Dom g a i) (hb : Dom g b i) :
    Dom g a b ∨ Dom g b a := by
  apply Classical.byContradiction
  intro hcon
  have hnab : ¬ Dom g a b := fun h => hcon (Or.inl h)
  have hnba : ¬ Dom g b a := fun h => hcon (Or.inr h)
  obtain ⟨ρ, hρ⟩ := hr
  obtain ⟨front, x, back, e, hx, hfa, hfb⟩ := first_occurrence a b ρ (Or.inl (ha ρ hρ))
  subst e
  rcases hx with e | e
  · -- the first of the two met when walking back from `i` is `a`: reroute through a path to `a` avoiding `b`
    subst e
    have : ∃ σ, Path g x σ ∧ b ∉ σ := by
      apply Classical.byContradiction
      intro hno
      apply hnba
      intro σ hσ
      apply Classical.byContradiction
      intro hnot; exact hno ⟨σ, hσ, hnot⟩
    obtain ⟨σ, hσ, hbσ⟩ := this
    obtain ⟨t, et⟩ := path_cons hσ
    subst et
    have hnew := path_splice front x back t i hρ hσ
    have := hb _ hnew
    rcases List.mem_append.mp this with h | h
    · exact hfb h
    · exact hbσ h
  · subst e
    have : ∃ σ, Path g x σ ∧ a ∉ σ := by
      apply Classical.byContradiction
      intro hno
      apply hnab
      intro σ hσ
      apply Classical.byContradiction
      intro hnot; exact hno ⟨σ, hσ, hnot⟩
    obtain ⟨σ, hσ, haσ⟩ := this
    obtain ⟨t, et⟩ := path_cons hσ
    subst et
    have hnew := path_splice front x back t i hρ hσ
    have := ha _ hnew
    rcases List.mem_append.mp this with h | h
    · exact hfa h
    · exact haσ h


theorem mem_members (n : Nat) (s : Nat → Bool) (d : Nat) : d ∈ members n s ↔ d < n ∧ s d = true := by
  unfold members; simp [List.mem_filter]

theorem mem_candidates (g : Graph) (D : Sets) (i d : Nat) :
    d ∈ candidates g D i ↔ d < g.n ∧ D i d = true ∧ d ≠ i := by
  unfold candidates; simp [List.mem_filter, mem_members, and_assoc]

theorem candidates_nodup (g : Graph) (D : Sets) (i : Nat) : (candidates g D i).Nodup := by
  unfold candidates members
  exact (List.nodup_range.filter _).filter _

theorem sdom_lt {g : Graph} (hr : Rooted g) {d i : Nat} (hi : i < g.n) (h : Dom g d i) : d < g.n := by
  obtain ⟨π, hπ⟩ := hr.reach i hi
  exact path_lt hr.pos hπ d (h π hπ)

theorem mem_candidates_iff_sdom (g : Graph) (hr : Rooted g) (D : Sets) (hD : DomSets g D) (i : Nat) (hi : i < g.n) (d : Nat) :
    d ∈ candidates g D i ↔ SDom g d i := by
  rw [mem_candidates]
  constructor
  · rintro ⟨_, h1, h2⟩; exact ⟨(hD i hi d).mp h1, h2⟩
  · rintro ⟨h1, h2⟩; exact ⟨sdom_lt hr hi h1, (hD i hi d).mpr h1, h2⟩

/-- one step of the `for j in &idom_candidates` loop -/
def allStep (g : Graph) (D : Sets) (all : Nat → Bool) (j : Nat) : Nat → Bool :=
  if all j then all else fun k => (D j k && k != j && decide (k < g.n)) || all k

def StrictIn (g : Graph) (D : Sets) (j k : Nat) : Prop := D j k = true ∧ k ≠ j ∧ k < g.n

theorem allFold_spec (g : Graph) (hr : Rooted g) (D : Sets) (hD : DomSets g D) :
    ∀ (order pre : List Nat) (all : Nat → Bool), (∀ j ∈ order, j < g.n) → (∀ j ∈ pre, j < g.n) →
    (∀ k, all k = true ↔ ∃ j ∈ pre, StrictIn g D j k) →
    ∀ k, (order.foldl (allStep g D) all) k = true ↔ ∃ j ∈ pre ++ order, StrictIn g D j k := by
  intro order
  induction order with
  | nil => intro pre all _ _ h k; simpa using h k
  | cons j order ih =>
    intro pre all ho hp h k
    simp only [List.foldl_cons]
    have hj : j < g.n := ho j List.mem_cons_self
    have := ih (pre ++ [j]) (allStep g D all j) (fun x hx => ho x (List.mem_cons_of_mem _ hx))
      (by intro x hx; rcases List.mem_append.mp hx with e | e
          · exact hp x e
          · simp at e; subst e; exact hj)
      (by
        intro k
        unfold allStep
        by_cases haj : all j = true
        · simp only [haj, if_true]
          rw [h k]
          constructor
          · rintro ⟨j', hj', hs⟩; exact ⟨j', List.mem_append_left _ hj', hs⟩
          · rintro ⟨j', hj', hs⟩
            rcases List.mem_append.mp hj' with e | e
            · exact ⟨j', e, hs⟩
            · simp at e; subst e
              -- `j'` is already strictly dominated by some processed `j''`: so is everything above it
              obtain ⟨j'', hj'', hs''⟩ := (h j').mp haj
              refine ⟨j'', hj'', ?_⟩
              have hj''n := hp j'' hj''
              have d1 : Dom g k j' := (hD j' hj k).mp hs.1
              have d2 : Dom g j' j'' := (hD j'' hj''n j').mp hs''.1
              refine ⟨(hD j'' hj''n k).mpr (dom_trans d1 d2), ?_, hs.2.2⟩
              intro e; subst e
              exact hs''.2.1 (dom_antisymm (hr.reach j' hj) d2 d1)
        · have haj' : all j = false := by simpa using haj
          simp only [haj', Bool.false_eq_true, if_false, Bool.or_eq_true, Bool.and_eq_true, bne_iff_ne, decide_eq_true_eq]
          rw [h k]
          constructor
          · rintro (⟨⟨a, b⟩, c⟩ | ⟨j', hj', hs⟩)
            · exact ⟨j, List.mem_append_right _ (by simp), a, b, c⟩
            · exact ⟨j', List.mem_append_left _ hj', hs⟩
          · rintro ⟨j', hj', hs⟩
            rcases List.mem_append.mp hj' with e | e
            · exact Or.inr ⟨j', e, hs⟩
            · simp at e; subst e; exact Or.inl ⟨⟨hs.1, hs.2.1⟩, hs.2.2⟩) k
    simpa [List.append_assoc] using this


theorem chain_max {g : Graph} {i : Nat} (hr : Reachable g i) : ∀ (l : List Nat), l ≠ [] → (∀ x ∈ l, Dom g x i) →
    ∃ d ∈ l, ∀ e ∈ l, Dom g e d := by
  intro l
  induction l with
  | nil => intro h; exact absurd rfl h
  | cons a l ih =>
    intro _ hall
    by_cases hl : l = []
    · subst hl; exact ⟨a, by simp, by intro e he; simp at he; subst he; exact dom_refl g e⟩
    · obtain ⟨d, hd, hmax⟩ := ih hl (fun x hx => hall x (List.mem_cons_of_mem _ hx))
      rcases dom_chain hr (hall a List.mem_cons_self) (hall d (List.mem_cons_of_mem _ hd)) with h | h
      · refine ⟨d, List.mem_cons_of_mem _ hd, ?_⟩
        intro e he
        rcases List.mem_cons.mp he with e' | e'
        · subst e'; exact h
        · exact hmax e e'
      · refine ⟨a, List.mem_cons_self, ?_⟩
        intro e he
        rcases List.mem_cons.mp he with e' | e'
        · subst e'; exact dom_refl g e
        · exact dom_trans (hmax e e') h

theorem idom_unique {g : Graph} {i d d' : Nat} (hr : Reachable g d) (h : IDom g d i) (h' : IDom g d' i) : d' = d :=
  (dom_antisymm hr (h'.2 d h.1) (h.2 d' h'.1)).symm

theorem list_singleton {l : List Nat} {d : Nat} (hnd : l.Nodup) (hd : d ∈ l) (hall : ∀ x ∈ l, x = d) : l = [d] := by
  match l, hnd, hd, hall with
  | [a], _, hd, _ => simp at hd; subst hd; rfl
  | a :: b :: t, hnd, _, hall =>
    have ha := hall a (by simp)
    have hb := hall b (by simp)
    have : a ≠ b := by
      intro e; subst e
      have := (List.nodup_cons.mp hnd).1
      simp at this
    exact absurd (ha.trans hb.symm) this

theorem idomOf_eq (g : Graph) (D : Sets) (i : Nat) (order : List Nat) :
    idomOf g D i order =
      let c := candidates g D i
      let c' := if c.length > 1 then c.filter (fun k => !(order.foldl (allStep g D) (fun _ => false)) k) else c
      if c'.length > 1 then .panic else match c' with | [] => .none | j :: _ => .some j := rfl

/-- `compute_immediate_dominators` for one node: never the `assert!`, `None` exactly for the entry,
    otherwise the immediate dominator — in whatever order the hash set `idom_candidates` is
    iterated. -/
theorem idomOf_correct (g : Graph) (hr : Rooted g) (D : Sets) (hD : DomSets g D) (i : Nat) (hi : i < g.n)
    (order : List Nat) (hord : ∀ j, j ∈ order ↔ j ∈ candidates g D i) :
    (i = 0 → idomOf g D i order = .none) ∧
    (i ≠ 0 → ∃ d, idomOf g D i order = .some d ∧ IDom g d i ∧ ∀ d', IDom g d' i → d' = d) := by
  have hc := mem_candidates_iff_sdom g hr D hD i hi
  have hreach := hr.reach i hi
  rw [idomOf_eq]
  constructor
  · intro h0; subst h0
    have : candidates g D 0 = [] := by
      apply List.eq_nil_iff_forall_not_mem.mpr
      intro d hd
      have := (hc d).mp hd
      have hm := this.1 [0] Path.root
      simp at hm; exact this.2 hm
    simp [this]
  · intro h0
    -- the strict dominators of `i` are a non-empty chain
    have h0c : 0 ∈ candidates g D i := (hc 0).mpr ⟨fun π hπ => path_zero_mem hπ, fun e => h0 e.symm⟩
    have hne : candidates g D i ≠ [] := by intro e; rw [e] at h0c; cases h0c
    obtain ⟨d, hdc, hmax⟩ := chain_max hreach (candidates g D i) hne (fun x hx => ((hc x).mp hx).1)
    have hidom : IDom g d i := ⟨(hc d).mp hdc, fun e he => hmax e ((hc e).mpr he)⟩
    have hdn : d < g.n := ((mem_candidates g D i d).mp hdc).1
    have huniq : ∀ d', IDom g d' i → d' = d := fun d' h' => idom_unique (hr.reach d hdn) hidom h'
    refine ⟨d, ?_, hidom, huniq⟩
    by_cases hlen : (candidates g D i).length > 1
    · -- the filter keeps exactly the immediate dominator
      simp only [hlen, if_true]
      have hspec := allFold_spec g hr D hD order [] (fun _ => false)
        (fun j hj => ((mem_candidates g D i j).mp ((hord j).mp hj)).1) (by simp) (by simp)
      have hsurv : ∀ x, x ∈ (candidates g D i).filter (fun k => !(order.foldl (allStep g D) (fun _ => false)) k) ↔ IDom g x i := by
        intro x
        rw [List.mem_filter]
        constructor
        · rintro ⟨hx, hnot⟩
          have hxs := (hc x).mp hx
          refine ⟨hxs, ?_⟩
          intro e he
          rcases dom_chain hreach he.1 hxs.1 with h | h
          · exact h
          · -- `x` dominates `e`; were they different, `x` would have been removed
            by_cases hxe : x = e
            · subst hxe; exact dom_refl g x
            · exfalso
              have hen : e < g.n := sdom_lt hr hi he.1
              have : (order.foldl (allStep g D) (fun _ => false)) x = true := by
                rw [hspec x]
                refine ⟨e, by simpa using (hord e).mpr ((hc e).mpr he), (hD e hen x).mpr h, hxe, ?_⟩
                exact ((mem_candidates g D i x).mp hx).1
              simp [this] at hnot
        · intro hx
          refine ⟨(hc x).mpr hx.1, ?_⟩
          have : (order.foldl (allStep g D) (fun _ => false)) x = false := by
            apply Bool.eq_false_iff.mpr
            intro ht
            obtain ⟨j, hj, hs⟩ := (hspec x).mp ht
            have hjc : j ∈ candidates g D i := (hord j).mp (by simpa using hj)
            have hjn := ((mem_candidates g D i j).mp hjc).1
            have d1 : Dom g x j := (hD j hjn x).mp hs.1
            have d2 : Dom g j x := hx.2 j ((hc j).mp hjc)
            exact hs.2.1 (dom_antisymm (hr.reach x hs.2.2) d1 d2)
          simp [this]
      have hnd : ((candidates g D i).filter (fun k => !(order.foldl (allStep g D) (fun _ => false)) k)).Nodup :=
        (candidates_nodup g D i).filter _
      have := list_singleton hnd ((hsurv d).mpr hidom) (fun x hx => huniq x ((hsurv x).mp hx))
      rw [this]; simp
    · simp only [hlen, if_false]
      -- a single candidate: it is `d`
      have : candidates g D i = [d] := by
        apply list_singleton (candidates_nodup g D i) hdc
        intro x hx
        match hcs : candidates g D i, hlen, hx, hdc with
        | [a], _, hx, hdc => simp at hx hdc; rw [hx, hdc]
        | a :: b :: t, hlen, _, _ => simp at hlen
      rw [this]


/-- the immediate-dominator function is what C15 says it is -/
def IdomFn (g : Graph) (idom : Nat → IdomOut) : Prop :=
  idom 0 = .none ∧ ∀ i, i < g.n → i ≠ 0 → ∃ d, idom i = .some d ∧ IDom g d i

theorem idom_lt {g : Graph} (hr : Rooted g) {d i : Nat} (hi : i < g.n) (h : IDom g d i) : d < g.n :=
  sdom_lt hr hi h.1.1

theorem dcard_lt (g : Graph) (hr : Rooted g) (D : Sets) (hD : DomSets g D) {x p : Nat} (hx : x < g.n)
    (h : IDom g p x) : card g.n (D p) < card g.n (D x) := by
  have hp := idom_lt hr hx h
  unfold card
  apply countP_lt_of_imp
  · intro d _ hd
    exact (hD x hx d).mpr (dom_trans ((hD p hp d).mp hd) h.1.1)
  · refine ⟨x, List.mem_range.mpr hx, ?_⟩
    have h1 : D x x = true := (hD x hx x).mpr (dom_refl g x)
    have h2 : D p x = false := by
      apply Bool.eq_false_iff.mpr
      intro ht
      have := dom_antisymm (hr.reach p hp) h.1.1 ((hD p hp x).mp ht)
      exact h.1.2 this
    rw [h1, h2]; simp

/-- the walk up the dominator tree from `x` (a node dominated by `m = idom i`) collects exactly
    the dominators of `x` that do not dominate `m` -/
theorem walk_spec (g : Graph) (hr : Rooted g) (D : Sets) (hD : DomSets g D) (idom : Nat → IdomOut)
    (hid : IdomFn g idom) (i m : Nat) (him : idom i = .some m) (hm : m < g.n) :
    ∀ (fuel x : Nat), x < g.n → card g.n (D x) < fuel → Dom g m x →
    ∀ k, k ∈ walk idom i fuel x ↔ Dom g k x ∧ ¬ Dom g k m := by
  intro fuel
  induction fuel with
  | zero => intro x _ h; omega
  | succ f ih =>
    intro x hx hc hmx k
    unfold walk
    by_cases hxm : x = m
    · subst hxm
      simp only [him, beq_self_eq_true, if_true, List.not_mem_nil, false_iff]
      intro h; exact h.2 h.1
    · have hne : (idom i == IdomOut.some x) = false := by
        rw [him]; apply Bool.eq_false_iff.mpr; intro e
        have := of_decide_eq_true e
        injection this with this; exact hxm this.symm
      simp only [hne, Bool.false_eq_true, if_false]
      have hx0 : x ≠ 0 := by
        intro e; subst e
        have := hmx [0] Path.root
        simp at this; exact hxm this.symm
      obtain ⟨p, hp, hpi⟩ := hid.2 x hx hx0
      have hpn := idom_lt hr hx hpi
      have hmp : Dom g m p := hpi.2 m ⟨hmx, fun e => hxm e.symm⟩
      have hcp := dcard_lt g hr D hD hx hpi
      have IH := ih p hpn (by omega) hmp k
      rw [hp]; simp only [List.mem_cons]
      rw [IH]
      constructor
      · rintro (e | ⟨h1, h2⟩)
        · subst e
          refine ⟨dom_refl g k, ?_⟩
          intro h; exact hxm (dom_antisymm (hr.reach k hx) h hmx)
        · exact ⟨dom_trans h1 hpi.1.1, h2⟩
      · rintro ⟨h1, h2⟩
        by_cases e : k = x
        · exact Or.inl e
        · exact Or.inr ⟨hpi.2 k ⟨h1, e⟩, h2⟩

/-- a node all of whose predecessors coincide is dominated by that predecessor, so (in a rooted
    graph) it lies in no dominance frontier -/
theorem no_self_dom_via_pred {g : Graph} {i : Nat} (hi0 : i ≠ 0)
    (h : ∀ π, Path g i π → i ∈ π.tail) : ∀ n (π : List Nat), π.length ≤ n → Path g i π → False := by
  intro n
  induction n with
  | zero =>
    intro π hl hπ
    obtain ⟨t, e⟩ := path_cons hπ
    subst e; simp at hl
  | succ n ih =>
    intro π hl hπ
    have hin := h π hπ
    rcases path_inv hπ with ⟨e, _⟩ | ⟨j, t, e, hj, _, _⟩
    · exact hi0 e
    · subst e
      simp only [List.tail_cons] at hin
      obtain ⟨π', hp', _, hlen, _⟩ := subpath hj i hin
      exact ih π' (by simp at hl; omega) hp'

theorem isJoin_false {g : Graph} {i : Nat} (h : isJoin g i = false) :
    ∀ a ∈ g.pred i, ∀ b ∈ g.pred i, a = b := by
  intro a ha b hb
  unfold isJoin at h
  rw [List.any_eq_false] at h
  have := h a ha
  simp only [Bool.not_eq_true] at this
  rw [List.any_eq_false] at this
  have := this b hb
  simpa using this

theorem isJoin_true {g : Graph} {i : Nat} (h : isJoin g i = true) : ∃ a ∈ g.pred i, ∃ b ∈ g.pred i, a ≠ b := by
  unfold isJoin at h
  rw [List.any_eq_true] at h
  obtain ⟨a, ha, h⟩ := h
  rw [List.any_eq_true] at h
  obtain ⟨b, hb, h⟩ := h
  exact ⟨a, ha, b, hb, by simpa using h⟩

/-- `compute_dominance_frontier` computes the dominance frontier of the definition -/
theorem inFrontier_correct (g : Graph) (hr : Rooted g) (D : Sets) (hD : DomSets g D) (idom : Nat → IdomOut)
    (hid : IdomFn g idom) (k i : Nat) :
    inFrontier g idom k i = true ↔ InFrontier g k i := by
  unfold inFrontier InFrontier
  by_cases hi' : ¬ i < g.n
  · simp [hi']
  have hi : i < g.n := Classical.not_not.mp hi'
  simp only [hi, decide_true, Bool.true_and, true_and, Bool.and_eq_true]
  by_cases hi0 : i = 0
  · subst hi0
    simp [hr.entry, isJoin]
  obtain ⟨m, him, hmi⟩ := hid.2 i hi hi0
  have hmn := idom_lt hr hi hmi
  -- dominating `m` is the same as strictly dominating `i`
  have key : ∀ k, Dom g k m ↔ SDom g k i := by
    intro k
    constructor
    · intro h
      refine ⟨dom_trans h hmi.1.1, ?_⟩
      intro e; subst e
      exact hmi.1.2 (dom_antisymm (hr.reach m hmn) hmi.1.1 h)
    · intro h; exact hmi.2 k h
  by_cases hj : isJoin g i = true
  · simp only [hj, true_and, List.any_eq_true]
    constructor
    · rintro ⟨j, hjp, hw⟩
      have hjn := hr.closed i hi j hjp
      have hmj : Dom g m j := dom_pred hmi.1.1 hmi.1.2 hjp hi
      have := (walk_spec g hr D hD idom hid i m him hmn (g.n + 1) j hjn
        (by have := card_le g.n (D j); omega) hmj k).mp (by simpa using hw)
      exact ⟨⟨j, hjp, this.1⟩, fun h => this.2 ((key k).mpr h)⟩
    · rintro ⟨⟨j, hjp, hkj⟩, hns⟩
      have hjn := hr.closed i hi j hjp
      have hmj : Dom g m j := dom_pred hmi.1.1 hmi.1.2 hjp hi
      refine ⟨j, hjp, ?_⟩
      have := (walk_spec g hr D hD idom hid i m him hmn (g.n + 1) j hjn
        (by have := card_le g.n (D j); omega) hmj k).mpr ⟨hkj, fun h => hns ((key k).mp h)⟩
      simpa using this
  · have hj' : isJoin g i = false := by simpa using hj
    simp only [hj', Bool.false_eq_true, false_and, false_iff]
    rintro ⟨⟨j, hjp, hkj⟩, hns⟩
    have hsame := isJoin_false hj'
    -- every path to `i` arrives from `j`, so `k` dominates `i`; not strictly, hence `k = i`
    have hki : Dom g k i := by
      intro π hπ
      rcases path_inv hπ with ⟨e, _⟩ | ⟨j', t, e, hj't, hj'p, _⟩
      · exact absurd e hi0
      · subst e
        have : j' = j := hsame j' hj'p j hjp
        subst this
        exact List.mem_cons_of_mem _ (hkj t hj't)
    have hk : k = i := by
      apply Classical.byContradiction
      intro e; exact hns ⟨hki, e⟩
    subst hk
    obtain ⟨π, hπ⟩ := hr.reach k hi
    apply no_self_dom_via_pred hi0 _ π.length π (Nat.le_refl _) hπ
    intro π hπ
    rcases path_inv hπ with ⟨e, _⟩ | ⟨j', t, e, hj't, hj'p, _⟩
    · exact absurd e hi0
    · subst e
      have : j' = j := hsame j' hj'p j hjp
      subst this
      simpa using hkj t hj't


end Circomspect.DominatorLemmas
