/-
Lemmas for the expression- and statement-level soundness of value propagation (C06).
-/
import Circomspect.Model.Propagate
set_option linter.unusedSimpArgs false
namespace Circomspect.Propagate
open Circomspect Ir

/-! Concrete evaluation of the expression forms that value propagation interprets; `ρ` gives the
    values of the (SSA) variables, `none` = unknown / undefined.  The operators are evaluated by the
    same `valInfix`/`valPrefix` whose agreement with Circom's field semantics is `C06_ops_*`. -/
abbrev evalSwitch := switchVal

/-! Annotation erasure: the identity of a node for the oracle `ω` that supplies the values of the
    expression forms value propagation does not interpret (calls, inline arrays, array reads and
    updates): `ω` is arbitrary, so every theorem below holds whatever these forms evaluate to. -/
mutual
def erase : Expr → Expr
  | .infix _ op l r => .infix {} op (erase l) (erase r)
  | .prefix _ op e => .prefix {} op (erase e)
  | .switch _ c t f => .switch {} (erase c) (erase t) (erase f)
  | .var _ v => .var {} v
  | .num _ n => .num {} n
  | .call _ n args => .call {} n (eraseEs args)
  | .arr _ vals => .arr {} (eraseEs vals)
  | .acc _ v access => .acc {} v (eraseAs access)
  | .upd _ v access rhe => .upd {} v (eraseAs access) (erase rhe)
  | .phi _ args => .phi {} args
def eraseEs : Exprs → Exprs
  | .nil => .nil
  | .cons e r => .cons (erase e) (eraseEs r)
def eraseAs : Accs → Accs
  | .nil => .nil
  | .cons (.idx e) r => .cons (.idx (erase e)) (eraseAs r)
  | .cons (.cmp n) r => .cons (.cmp n) (eraseAs r)
end

def evalE (ρ : VName → Option Val) (ω : Expr → Option Val) (p : Int) : Expr → Option Val
  | .infix _ op l r => valInfix op (evalE ρ ω p l) (evalE ρ ω p r) p
  | .prefix _ op e => valPrefix op (evalE ρ ω p e) p
  | .switch _ c t f => evalSwitch (evalE ρ ω p c) (evalE ρ ω p t) (evalE ρ ω p f)
  | .var _ v => ρ v
  | .num _ n => some (.fe (n % p))
  | .call a n args => ω (erase (.call a n args))
  | .arr a vals => ω (erase (.arr a vals))
  | .acc a v access => ω (erase (.acc a v access))
  | .upd a v access rhe => ω (erase (.upd a v access rhe))
  | .phi _ _ => none          -- a phi is a statement form (see `PathLemmas`), not an expression with a value

/-- the claim attached to a node is right whenever the node has a value -/
def claimOk (ρ : VName → Option Val) (ω : Expr → Option Val) (p : Int) (e : Expr) : Prop :=
  ∀ x, e.ann.val = some x → ∀ y, evalE ρ ω p e = some y → y = x

mutual
/-- every claim inside the expression is right; calls, arrays, array reads and updates carry no claim
    (their value is the oracle's); the claim of a `phi` is the common value of all its arguments -/
def SoundE (ρ : VName → Option Val) (ω : Expr → Option Val) (p : Int) : Expr → Prop
  | .infix a op l r => claimOk ρ ω p (.infix a op l r) ∧ SoundE ρ ω p l ∧ SoundE ρ ω p r
  | .prefix a op e => claimOk ρ ω p (.prefix a op e) ∧ SoundE ρ ω p e
  | .switch a c t f => claimOk ρ ω p (.switch a c t f) ∧ SoundE ρ ω p c ∧ SoundE ρ ω p t ∧ SoundE ρ ω p f
  | .var a v => claimOk ρ ω p (.var a v)
  | .num a n => claimOk ρ ω p (.num a n)
  | .call a _ args => a.val = none ∧ SoundEs ρ ω p args
  | .arr a vals => a.val = none ∧ SoundEs ρ ω p vals
  | .acc a _ access => a.val = none ∧ SoundAs ρ ω p access
  | .upd a _ access rhe => a.val = none ∧ SoundAs ρ ω p access ∧ SoundE ρ ω p rhe
  | .phi a args => ∀ x, a.val = some x → ∀ arg, arg ∈ args → ∀ y, ρ arg = some y → y = x
def SoundEs (ρ : VName → Option Val) (ω : Expr → Option Val) (p : Int) : Exprs → Prop
  | .nil => True
  | .cons e r => SoundE ρ ω p e ∧ SoundEs ρ ω p r
def SoundAs (ρ : VName → Option Val) (ω : Expr → Option Val) (p : Int) : Accs → Prop
  | .nil => True
  | .cons (.idx e) r => SoundE ρ ω p e ∧ SoundAs ρ ω p r
  | .cons (.cmp _) r => SoundAs ρ ω p r
end

/-- the abstract environment only knows values the concrete one agrees with -/
def Agree (ρ : VName → Option Val) (env : ValEnv) : Prop :=
  ∀ v x, env.get v = some x → ∀ y, ρ v = some y → y = x

theorem sound_top (ρ : VName → Option Val) (ω : Expr → Option Val) (p : Int) : ∀ e, SoundE ρ ω p e → claimOk ρ ω p e
  | .infix a op l r, h => by unfold SoundE at h; exact h.1
  | .prefix a op e, h => by unfold SoundE at h; exact h.1
  | .switch a c t f, h => by unfold SoundE at h; exact h.1
  | .var a v, h => by unfold SoundE at h; exact h
  | .num a n, h => by unfold SoundE at h; exact h
  | .call _ _ _, h => by unfold SoundE at h; intro x hx; simp [Expr.ann, h.1] at hx
  | .arr _ _, h => by unfold SoundE at h; intro x hx; simp [Expr.ann, h.1] at hx
  | .acc _ _ _, h => by unfold SoundE at h; intro x hx; simp [Expr.ann, h.1] at hx
  | .upd _ _ _ _, h => by unfold SoundE at h; intro x hx; simp [Expr.ann, h.1] at hx
  | .phi _ _, _ => by intro x _ y hy; simp [evalE] at hy

theorem valInfix_some (op : String) (a b : Option Val) (p : Int) (y : Val) (h : valInfix op a b p = some y) :
    ∃ a' b', a = some a' ∧ b = some b' := by
  cases a with
  | none => simp [valInfix] at h
  | some a' =>
    cases b with
    | none => cases a' <;> simp [valInfix] at h
    | some b' => exact ⟨a', b', rfl, rfl⟩

theorem valPrefix_some (op : String) (a : Option Val) (p : Int) (y : Val) (h : valPrefix op a p = some y) :
    ∃ a', a = some a' := by
  cases a with
  | none => simp [valPrefix] at h
  | some a' => exact ⟨a', rfl⟩

theorem orSetVal_val (a : Ann) (c : Bool) (x : Option Val) :
    (orSetVal a c x).1.val = a.val ∨ (∃ v, x = some v ∧ (orSetVal a c x).1.val = some v) := by
  unfold orSetVal
  cases x with
  | none => exact Or.inl rfl
  | some v =>
    cases c with
    | true => exact Or.inl rfl
    | false => exact Or.inr ⟨v, rfl, rfl⟩

theorem setVal_val (a : Ann) (x : Val) : (setVal a x).1.val = some x := rfl

mutual
/-- propagation only changes annotations: the erased expression is the same -/
theorem erase_valExpr (env : ValEnv) : ∀ e, erase (valExpr env e).1 = erase e
  | .infix a op l r => by
    unfold valExpr
    simp only
    cases hc : (valExpr env l).2 with
    | true => simp only [if_true, erase, erase_valExpr env l]
    | false => simp only [Bool.false_eq_true, if_false, erase, erase_valExpr env l, erase_valExpr env r]
  | .prefix a op e => by unfold valExpr; simp only [erase, erase_valExpr env e]
  | .switch a c t f => by
    unfold valExpr; simp only [erase, erase_valExpr env c, erase_valExpr env t, erase_valExpr env f]
  | .var a v => by unfold valExpr; split <;> simp [erase]
  | .num a n => by unfold valExpr; simp [erase]
  | .call a n args => by unfold valExpr; simp only [erase, eraseEs_valExprs env args false]
  | .arr a vals => by unfold valExpr; simp only [erase, eraseEs_valExprs env vals false]
  | .acc a v access => by unfold valExpr; simp only [erase, eraseAs_valAccs env access false]
  | .upd a v access rhe => by
    unfold valExpr; simp only [erase, eraseAs_valAccs env access _, erase_valExpr env rhe]
  | .phi a args => by
    unfold valExpr
    dsimp only
    split
    · split
      · simp [erase]
      · split <;> simp [erase]
    · simp [erase]
theorem eraseEs_valExprs (env : ValEnv) : ∀ (es : Exprs) (c : Bool), eraseEs (valExprs env es c).1 = eraseEs es
  | .nil, c => by unfold valExprs; rfl
  | .cons e r, c => by
    unfold valExprs
    simp only
    cases c with
    | true => simp only [if_true, eraseEs, eraseEs_valExprs env r _]
    | false => simp only [Bool.false_eq_true, if_false, eraseEs, erase_valExpr env e, eraseEs_valExprs env r _]
theorem eraseAs_valAccs (env : ValEnv) : ∀ (acc : Accs) (c : Bool), eraseAs (valAccs env acc c).1 = eraseAs acc
  | .nil, c => by unfold valAccs; rfl
  | .cons (.idx e) r, c => by
    unfold valAccs
    simp only
    cases c with
    | true => simp only [if_true, eraseAs, eraseAs_valAccs env r _]
    | false => simp only [Bool.false_eq_true, if_false, eraseAs, erase_valExpr env e, eraseAs_valAccs env r _]
  | .cons (.cmp n) r, c => by
    unfold valAccs
    simp only [eraseAs, eraseAs_valAccs env r _]
end

mutual
/-- propagation only changes annotations -/
theorem evalE_valExpr (ρ : VName → Option Val) (ω : Expr → Option Val) (p : Int) (env : ValEnv) :
    ∀ e, evalE ρ ω p (valExpr env e).1 = evalE ρ ω p e
  | .infix a op l r => by
    unfold valExpr
    simp only
    cases hc : (valExpr env l).2 with
    | true => simp only [if_true, evalE, evalE_valExpr ρ ω p env l]
    | false => simp only [Bool.false_eq_true, if_false, evalE, evalE_valExpr ρ ω p env l, evalE_valExpr ρ ω p env r]
  | .prefix a op e => by
    unfold valExpr
    simp only [evalE, evalE_valExpr ρ ω p env e]
  | .switch a c t f => by
    unfold valExpr
    simp only [evalE, evalE_valExpr ρ ω p env c, evalE_valExpr ρ ω p env t, evalE_valExpr ρ ω p env f]
  | .var a v => by
    unfold valExpr
    split <;> simp [evalE]
  | .num a n => by unfold valExpr; simp [evalE]
  | .call a n args => by
    have := erase_valExpr env (.call a n args)
    unfold valExpr at this ⊢; simp only at this ⊢; simp only [evalE, this]
  | .arr a vals => by
    have := erase_valExpr env (.arr a vals)
    unfold valExpr at this ⊢; simp only at this ⊢; simp only [evalE, this]
  | .acc a v access => by
    have := erase_valExpr env (.acc a v access)
    unfold valExpr at this ⊢; simp only at this ⊢; simp only [evalE, this]
  | .upd a v access rhe => by
    have := erase_valExpr env (.upd a v access rhe)
    unfold valExpr at this ⊢; simp only at this ⊢; simp only [evalE, this]
  | .phi a args => by
    unfold valExpr
    dsimp only
    split
    · split
      · simp [evalE]
      · split <;> simp [evalE]
    · simp [evalE]
end

open Circomspect Ir

@[simp] theorem ann_infix (a : Ann) (op : String) (l r : Expr) : (Expr.infix a op l r).ann = a := rfl
@[simp] theorem ann_prefix (a : Ann) (op : String) (e : Expr) : (Expr.prefix a op e).ann = a := rfl
@[simp] theorem ann_switch (a : Ann) (c t f : Expr) : (Expr.switch a c t f).ann = a := rfl
@[simp] theorem ann_var (a : Ann) (v : VName) : (Expr.var a v).ann = a := rfl
@[simp] theorem ann_num (a : Ann) (n : Int) : (Expr.num a n).ann = a := rfl

theorem claim_keep (ρ : VName → Option Val) (ω : Expr → Option Val) (p : Int) (e e' : Expr)
    (hev : evalE ρ ω p e' = evalE ρ ω p e) (hann : e'.ann.val = e.ann.val) (h : claimOk ρ ω p e) : claimOk ρ ω p e' := by
  intro x hx y hy
  rw [hann] at hx
  rw [hev] at hy
  exact h x hx y hy

theorem evalSwitch_some (c t f : Option Val) (y : Val) (h : evalSwitch c t f = some y) :
    (c = some (.bool true) ∧ t = some y) ∨ (c = some (.bool false) ∧ f = some y) ∨
    (∃ n, c = some (.fe n) ∧ n ≠ 0 ∧ t = some y) ∨ (c = some (.fe 0) ∧ f = some y) := by
  unfold evalSwitch switchVal at h
  split at h
  · exact Or.inl ⟨rfl, h⟩
  · exact Or.inr (Or.inl ⟨rfl, h⟩)
  · rename_i n
    split at h
    · rename_i hn
      exact Or.inr (Or.inr (Or.inl ⟨n, rfl, hn, h⟩))
    · rename_i hn
      have : n = 0 := by
        cases Decidable.em (n = 0) with
        | inl h0 => exact h0
        | inr h0 => exact absurd h0 hn
      subst this
      exact Or.inr (Or.inr (Or.inr ⟨rfl, h⟩))
  · cases h

/-- the arguments of a `phi` that gets a claim all have the claimed value in the environment -/
theorem phi_common (l : List (Option Val)) (x : Val) (rest : List Val)
    (h1 : l.filterMap id = x :: rest) (h2 : rest.all (· == x) = true) :
    ∀ z, some z ∈ l → z = x := by
  intro z hz
  have : z ∈ l.filterMap id := by
    rw [List.mem_filterMap]; exact ⟨some z, hz, rfl⟩
  rw [h1] at this
  rcases List.mem_cons.mp this with h | h
  · exact h
  · rw [List.all_eq_true] at h2
    simpa using h2 z h

mutual
theorem valExpr_sound (ρ : VName → Option Val) (ω : Expr → Option Val) (env : ValEnv) (hag : Agree ρ env) :
    ∀ e, SoundE ρ ω env.prime e → SoundE ρ ω env.prime (valExpr env e).1
  | .infix a op l r, h => by
    unfold SoundE at h
    obtain ⟨hc, hl, hr⟩ := h
    have il := valExpr_sound ρ ω env hag l hl
    have ir := valExpr_sound ρ ω env hag r hr
    have el := evalE_valExpr ρ ω env.prime env l
    have er := evalE_valExpr ρ ω env.prime env r
    unfold valExpr
    simp only
    cases hc1 : (valExpr env l).2 with
    | true =>
      simp only [if_true]
      unfold SoundE
      refine ⟨?_, il, hr⟩
      intro x hx y hy
      simp only [evalE, el] at hy
      rcases orSetVal_val a true (valInfix op (valExpr env l).1.ann.val r.ann.val env.prime) with h1 | ⟨v, hv, h1⟩
      · simp only [ann_infix] at hx
        rw [h1] at hx
        exact hc x hx y (by simpa [evalE] using hy)
      · simp [orSetVal, hv] at h1
        simp only [ann_infix] at hx
        have : (orSetVal a true (valInfix op (valExpr env l).1.ann.val r.ann.val env.prime)).1.val = a.val := by
          simp [orSetVal, hv]
        rw [this] at hx
        exact hc x hx y (by simpa [evalE] using hy)
    | false =>
      simp only [Bool.false_eq_true, if_false]
      unfold SoundE
      refine ⟨?_, il, ir⟩
      intro x hx y hy
      simp only [evalE, el, er] at hy
      rcases orSetVal_val a (valExpr env r).2
          (valInfix op (valExpr env l).1.ann.val (valExpr env r).1.ann.val env.prime) with h1 | ⟨v, hv, h1⟩
      · simp only [ann_infix, ann_prefix, ann_switch] at hx
        rw [h1] at hx
        exact hc x hx y (by simpa [evalE] using hy)
      · simp only [ann_infix, ann_prefix, ann_switch] at hx
        rw [h1] at hx
        cases hx
        obtain ⟨yl, yr, hyl, hyr⟩ := valInfix_some _ _ _ _ _ hy
        obtain ⟨xl, xr, hxl, hxr⟩ := valInfix_some _ _ _ _ _ hv
        have e1 : yl = xl := sound_top ρ ω env.prime _ il xl hxl yl (by rw [el]; exact hyl)
        have e2 : yr = xr := sound_top ρ ω env.prime _ ir xr hxr yr (by rw [er]; exact hyr)
        rw [hyl, hyr, e1, e2, ← hxl, ← hxr, hv] at hy
        exact (Option.some.inj hy).symm
  | .prefix a op e, h => by
    unfold SoundE at h
    obtain ⟨hc, he⟩ := h
    have ie := valExpr_sound ρ ω env hag e he
    have ee := evalE_valExpr ρ ω env.prime env e
    unfold valExpr
    simp only
    unfold SoundE
    refine ⟨?_, ie⟩
    intro x hx y hy
    simp only [evalE, ee] at hy
    rcases orSetVal_val a (valExpr env e).2 (valPrefix op (valExpr env e).1.ann.val env.prime) with h1 | ⟨v, hv, h1⟩
    · simp only [ann_infix, ann_prefix, ann_switch] at hx
      rw [h1] at hx
      exact hc x hx y (by simpa [evalE] using hy)
    · simp only [ann_infix, ann_prefix, ann_switch] at hx
      rw [h1] at hx
      cases hx
      obtain ⟨ye, hye⟩ := valPrefix_some _ _ _ _ hy
      obtain ⟨xe, hxe⟩ := valPrefix_some _ _ _ _ hv
      have e1 : ye = xe := sound_top ρ ω env.prime _ ie xe hxe ye (by rw [ee]; exact hye)
      rw [hye, e1, ← hxe, hv] at hy
      exact (Option.some.inj hy).symm
  | .switch a c t f, h => by
    unfold SoundE at h
    obtain ⟨hcl, hc, ht, hf⟩ := h
    have ic := valExpr_sound ρ ω env hag c hc
    have it := valExpr_sound ρ ω env hag t ht
    have iff' := valExpr_sound ρ ω env hag f hf
    have ec := evalE_valExpr ρ ω env.prime env c
    have et := evalE_valExpr ρ ω env.prime env t
    have ef := evalE_valExpr ρ ω env.prime env f
    unfold valExpr
    simp only
    unfold SoundE
    refine ⟨?_, ic, it, iff'⟩
    intro x hx y hy
    simp only [evalE, ec, et, ef] at hy
    rcases orSetVal_val a ((valExpr env c).2 || (valExpr env t).2 || (valExpr env f).2)
        (switchVal (valExpr env c).1.ann.val (valExpr env t).1.ann.val (valExpr env f).1.ann.val) with h1 | ⟨v, hv, h1⟩
    · simp only [ann_infix, ann_prefix, ann_switch] at hx
      rw [h1] at hx
      exact hcl x hx y (by simpa [evalE] using hy)
    · simp only [ann_infix, ann_prefix, ann_switch] at hx
      rw [h1] at hx
      cases hx
      have ctop := sound_top ρ ω env.prime _ ic
      have ttop := sound_top ρ ω env.prime _ it
      have ftop := sound_top ρ ω env.prime _ iff'
      unfold claimOk at ctop ttop ftop
      rw [ec] at ctop; rw [et] at ttop; rw [ef] at ftop
      rcases evalSwitch_some _ _ _ _ hv with ⟨c1, c2⟩ | ⟨c1, c2⟩ | ⟨n, c1, cn, c2⟩ | ⟨c1, c2⟩ <;>
        rcases evalSwitch_some _ _ _ _ hy with ⟨h1', h2'⟩ | ⟨h1', h2'⟩ | ⟨m, h1', hm, h2'⟩ | ⟨h1', h2'⟩ <;>
        first
          | exact ttop _ c2 _ h2'
          | exact ftop _ c2 _ h2'
          | (have := ctop _ c1 _ h1'; cases this; first | exact absurd rfl cn | exact absurd rfl hm)
          | (have := ctop _ c1 _ h1'; cases this)
  | .var a v, h => by
    unfold valExpr
    split
    · rename_i x hx
      unfold SoundE
      intro x' hx' y hy
      simp only [ann_var, setVal] at hx'
      cases hx'
      exact hag v x hx y (by simpa [evalE] using hy)
    · exact h
  | .num a n, _ => by
    unfold valExpr
    unfold SoundE
    intro x hx y hy
    simp only [ann_num, setVal] at hx
    cases hx
    simp [evalE] at hy
    exact hy.symm
  | .call a n args, h => by
    unfold SoundE at h
    unfold valExpr
    simp only
    unfold SoundE
    exact ⟨h.1, valExprs_sound ρ ω env hag args false h.2⟩
  | .arr a vals, h => by
    unfold SoundE at h
    unfold valExpr
    simp only
    unfold SoundE
    exact ⟨h.1, valExprs_sound ρ ω env hag vals false h.2⟩
  | .acc a v access, h => by
    unfold SoundE at h
    unfold valExpr
    simp only
    unfold SoundE
    exact ⟨h.1, valAccs_sound ρ ω env hag access false h.2⟩
  | .upd a v access rhe, h => by
    unfold SoundE at h
    unfold valExpr
    simp only
    unfold SoundE
    exact ⟨h.1, valAccs_sound ρ ω env hag access _ h.2.1, valExpr_sound ρ ω env hag rhe h.2.2⟩
  | .phi a args, h => by
    unfold valExpr
    dsimp only
    split
    · rename_i hsome
      split
      · exact h
      · split
        · rename_i x rest heq hall
          unfold SoundE
          intro x' hx' arg harg y hy
          simp only [setVal] at hx'
          cases hx'
          cases hg : env.get arg with
          | none =>
            rw [List.all_eq_true] at hsome
            have := hsome (env.get arg) (List.mem_map.mpr ⟨arg, harg, rfl⟩)
            rw [hg] at this; cases this
          | some z =>
            have hz : z = x := phi_common _ x rest heq hall z (by rw [← hg]; exact List.mem_map.mpr ⟨arg, harg, rfl⟩)
            subst hz
            exact hag arg z hg y hy
        · exact h
    · exact h
theorem valExprs_sound (ρ : VName → Option Val) (ω : Expr → Option Val) (env : ValEnv) (hag : Agree ρ env) :
    ∀ (es : Exprs) (c : Bool), SoundEs ρ ω env.prime es → SoundEs ρ ω env.prime (valExprs env es c).1
  | .nil, c, _ => by unfold valExprs; unfold SoundEs; trivial
  | .cons e r, c, h => by
    unfold SoundEs at h
    unfold valExprs
    simp only
    cases c with
    | true =>
      simp only [if_true]
      unfold SoundEs
      exact ⟨h.1, valExprs_sound ρ ω env hag r _ h.2⟩
    | false =>
      simp only [Bool.false_eq_true, if_false]
      unfold SoundEs
      exact ⟨valExpr_sound ρ ω env hag e h.1, valExprs_sound ρ ω env hag r _ h.2⟩
theorem valAccs_sound (ρ : VName → Option Val) (ω : Expr → Option Val) (env : ValEnv) (hag : Agree ρ env) :
    ∀ (acc : Accs) (c : Bool), SoundAs ρ ω env.prime acc → SoundAs ρ ω env.prime (valAccs env acc c).1
  | .nil, c, _ => by unfold valAccs; unfold SoundAs; trivial
  | .cons (.idx e) r, c, h => by
    unfold SoundAs at h
    unfold valAccs
    simp only
    cases c with
    | true =>
      simp only [if_true]
      unfold SoundAs
      exact ⟨h.1, valAccs_sound ρ ω env hag r _ h.2⟩
    | false =>
      simp only [Bool.false_eq_true, if_false]
      unfold SoundAs
      exact ⟨valExpr_sound ρ ω env hag e h.1, valAccs_sound ρ ω env hag r _ h.2⟩
  | .cons (.cmp n) r, c, h => by
    unfold SoundAs at h
    unfold valAccs
    simp only
    unfold SoundAs
    exact valAccs_sound ρ ω env hag r _ h
end

open Circomspect Ir

theorem get_filter (prime : Int) (vals : List (VName × Val)) (nc : List VName) (v w : VName) (x : Val)
    (h : (ValEnv.mk prime (vals.filter (fun e => e.1 != v)) nc).get w = some x) :
    (ValEnv.mk prime vals nc').get w = some x := by
  unfold ValEnv.get at h ⊢
  simp only at h ⊢
  induction vals with
  | nil => simp at h
  | cons e t ih =>
    simp only [List.filter_cons] at h
    by_cases hev : e.1 = v
    · have : (e.1 != v) = false := by simp [hev]
      rw [this] at h
      simp only [Bool.false_eq_true, if_false] at h
      have ih' := ih h
      simp only [List.find?_cons]
      by_cases hew : e.1 = w
      · -- then w = v, but the filtered list has no entry for v
        exfalso
        have hwv : w = v := hew ▸ hev
        subst hwv
        clear ih ih'
        induction t with
        | nil => simp at h
        | cons e2 t2 ih2 =>
          simp only [List.filter_cons] at h
          by_cases h2 : e2.1 = w
          · have : (e2.1 != w) = false := by simp [h2]
            rw [this] at h
            simp only [Bool.false_eq_true, if_false] at h
            exact ih2 h
          · have : (e2.1 != w) = true := by simp [h2]
            rw [this] at h
            simp only [if_true, List.find?_cons] at h
            have : (e2.1 == w) = false := by simp [h2]
            rw [this] at h
            exact ih2 h
      · have : (e.1 == w) = false := by simp [hew]
        rw [this]
        exact ih'
    · have : (e.1 != v) = true := by simp [hev]
      rw [this] at h
      simp only [if_true, List.find?_cons] at h ⊢
      cases hew : (e.1 == w) with
      | true => rw [hew] at h; exact h
      | false => rw [hew] at h; exact ih h

/-- `add_variable` keeps the environment in agreement with every concrete environment in which the
    assigned variable has the assigned value (whenever it has a value) -/
theorem agree_add (ρ : VName → Option Val) (env : ValEnv) (v : VName) (x : Val)
    (hag : Agree ρ env) (hv : ∀ y, ρ v = some y → y = x) : Agree ρ (env.add v x) := by
  unfold ValEnv.add
  split
  · exact hag
  · split
    · rename_i old hold
      split
      · exact hag
      · intro w xw hw y hy
        exact hag w xw (get_filter env.prime env.vals _ v w xw hw) y hy
    · intro w xw hw y hy
      unfold ValEnv.get at hw
      simp only [List.find?_cons] at hw
      cases hvw : (v == w) with
      | true =>
        rw [hvw] at hw
        simp only [Option.map_some] at hw
        have : v = w := by simpa using hvw
        subst this
        cases hw
        exact hv y hy
      | false =>
        rw [hvw] at hw
        exact hag w xw hw y hy

/-- one substitution: if the concrete environment satisfies the assignment, the claims written by the
    statement are right and the updated abstract environment still agrees -/
theorem valStmt_sub_sound (ρ : VName → Option Val) (ω : Expr → Option Val) (env : ValEnv) (hag : Agree ρ env)
    (a : Ann) (v : VName) (ty : Option VType) (op : String) (rhe : Expr)
    (hs : SoundE ρ ω env.prime rhe) (hsat : ρ v = evalE ρ ω env.prime rhe) :
    Agree ρ (valStmt env (.sub a v ty op rhe)).2.1 := by
  have ie := valExpr_sound ρ ω env hag rhe hs
  have ee := evalE_valExpr ρ ω env.prime env rhe
  unfold valStmt
  simp only
  split
  · split
    · rename_i x hx
      simp only
      apply agree_add ρ env v x hag
      intro y hy
      rw [hsat, ← ee] at hy
      exact sound_top ρ ω env.prime _ ie x hx y hy
    · exact hag
  · exact hag

end Circomspect.Propagate
