/-
C13: the statements a structured program executes under a sequence of branch/loop decisions, and
the statements met when walking a CFG under the same decisions. Both are executable.
A statement is identified by its source range; `rets` lists the ranges of `return` statements
(the source execution ends at its first `return`, the graph walk does not).
-/
import Circomspect.Model.CfgLift

namespace Circomspect.Trace
open Circomspect.CfgLift

structure Run where
  trace : List Loc
  ds : List Bool            -- decisions not yet consumed
  stop : Bool               -- a `return` was executed or the decisions ran out
  deriving Repr

/-- a `while` loop around an already-interpreted body: each iteration consumes a decision;
    `fuel` bounds the iterations (`ds.length + 1` is always enough) -/
def loop (body : Run → Run) (loc : Loc) : Nat → Run → Run
  | 0, r => { r with stop := true }
  | f + 1, r =>
    if r.stop then r else
    match r.ds with
    | [] => { r with stop := true }
    | d :: ds =>
      let r := { r with trace := r.trace ++ [loc], ds := ds }
      if d then loop body loc f (body r) else r

mutual
/-- big-step execution of a statement skeleton -/
def exec (rets : List Loc) (fuel : Nat) : Stmt → Run → Run
  | .simple loc, r => if r.stop then r else { r with trace := r.trace ++ [loc], stop := rets.contains loc }
  | .init cs, r => execList rets fuel cs r
  | .block cs, r => execList rets fuel cs r
  | .ite loc t, r =>
    if r.stop then r else
    match r.ds with
    | [] => { r with stop := true }
    | d :: ds =>
      let r := { r with trace := r.trace ++ [loc], ds := ds }
      if d then exec rets fuel t r else r
  | .iteElse loc t e, r =>
    if r.stop then r else
    match r.ds with
    | [] => { r with stop := true }
    | d :: ds =>
      let r := { r with trace := r.trace ++ [loc], ds := ds }
      if d then exec rets fuel t r else exec rets fuel e r
  | .while loc b, r => loop (exec rets fuel b) loc fuel r
def execList (rets : List Loc) (fuel : Nat) : Stmts → Run → Run
  | .nil, r => r
  | .cons s rest, r => execList rets fuel rest (exec rets fuel s r)
end

/-- the statements the source program executes under the decisions `ds` -/
def astTrace (rets : List Loc) (body : Stmt) (ds : List Bool) : List Loc :=
  (exec rets (ds.length + 1) body { trace := [], ds := ds, stop := false }).trace

def stmtLoc : IStmt → Loc
  | .simple l => l
  | .branch l _ _ => l

/-- walking the graph: emit the statements of the block; at a branch consume a decision and take
    the true edge, or the false edge (the recorded false target, else the other successor if
    any); without a branch follow the unique successor -/
def walk (bs : List Block) : Nat → Nat → List Bool → List Loc → List Loc
  | 0, _, _, acc => acc
  | fuel + 1, cur, ds, acc =>
    match bs[cur]? with
    | none => acc
    | some b =>
      let acc := acc ++ b.stmts.map stmtLoc
      match b.stmts.getLast? with
      | some (.branch _ t f) =>
        (match ds with
         | [] => acc
         | d :: ds =>
           if d then walk bs fuel t ds acc
           else match f with
             | some j => walk bs fuel j ds acc
             | none => match b.succs.filter (· != t) with
               | j :: _ => walk bs fuel j ds acc
               | [] => acc)
      | _ =>
        match b.succs with
        | [j] => walk bs fuel j ds acc
        | _ => acc

def cfgTrace (bs : List Block) (ds : List Bool) : List Loc :=
  walk bs ((ds.length + 1) * (bs.length + 1)) 0 ds []

def isPrefix : List Loc → List Loc → Bool
  | [], _ => true
  | _ :: _, [] => false
  | a :: as, b :: bs => a == b && isPrefix as bs

/-- all decision sequences of length `k` -/
def allDecisions : Nat → List (List Bool)
  | 0 => [[]]
  | k + 1 => (allDecisions k).flatMap (fun ds => [true :: ds, false :: ds])

/-- C13 on one definition, for all decision sequences of length `k`: the first counterexample -/
def firstMismatch (rets : List Loc) (body : Stmt) (bs : List Block) (k : Nat) : Option (List Bool) :=
  (allDecisions k).find? (fun ds => !isPrefix (astTrace rets body ds) (cfgTrace bs ds))

end Circomspect.Trace
