/-
Circom's algebra of arithmetic expressions (C07), written from the language documentation
("Constraint generation": constant, linear, quadratic and non-quadratic expressions).
Degrees: 0 constant, 1 linear, 2 quadratic, 3 non-quadratic.  Only `+ - *`, division by a
constant and unary minus are arithmetic; every other operator applied to a non-constant operand
is non-quadratic (the compiler refuses it inside a constraint), and constant operands fold.
-/
namespace Circomspect.Algebra

def alg (op : String) (a b : Nat) : Nat :=
  if op = "add" ∨ op = "sub" then (if a = 2 ∧ b = 2 then 3 else max a b)   -- `(Quadratic, Quadratic) => NonQuadratic`
  else if op = "mul" then min 3 (a + b)
  else if op = "div" then (if b = 0 then a else 3)
  else (if a = 0 ∧ b = 0 then 0 else 3)

def algPrefix (op : String) (a : Nat) : Nat :=
  if op = "neg" then a else (if a = 0 then 0 else 3)

/-- the infix and prefix operators of the language (dump names) -/
def infixOps : List String :=
  ["mul", "div", "add", "sub", "pow", "idiv", "mod", "shl", "shr", "le", "ge", "lt", "gt", "eq", "ne", "bor", "band", "or", "and", "xor"]
def prefixOps : List String := ["neg", "compl", "not"]

end Circomspect.Algebra
