/-
Graph-theoretic definitions used by C15 (and by C12, C14): paths from the entry node,
dominance, strict dominance, immediate dominators, dominance frontiers.  Written from the
textbook definitions, not from the implementation.
-/
namespace Circomspect.Graph

/-- a directed graph on nodes `0 .. n-1`, given by predecessor lists; node `0` is the entry -/
structure Graph where
  n : Nat
  pred : Nat → List Nat

/-- `Path g i π`: `π` lists, last node first, the nodes of a path from the entry `0` to `i` -/
inductive Path (g : Graph) : Nat → List Nat → Prop
  | root : Path g 0 [0]
  | step {j i : Nat} {π : List Nat} : Path g j π → j ∈ g.pred i → i < g.n → Path g i (i :: π)

def Reachable (g : Graph) (i : Nat) : Prop := ∃ π, Path g i π

/-- `d` dominates `i`: `d` lies on every path from the entry to `i` -/
def Dom (g : Graph) (d i : Nat) : Prop := ∀ π, Path g i π → d ∈ π

def SDom (g : Graph) (d i : Nat) : Prop := Dom g d i ∧ d ≠ i

/-- the immediate dominator: the strict dominator that every other strict dominator dominates -/
def IDom (g : Graph) (d i : Nat) : Prop := SDom g d i ∧ ∀ e, SDom g e i → Dom g e d

/-- `i` is in the dominance frontier of `k` -/
def InFrontier (g : Graph) (k i : Nat) : Prop :=
  i < g.n ∧ (∃ j ∈ g.pred i, Dom g k j) ∧ ¬ SDom g k i

/-- the graphs the property speaks about: every node reachable, the entry has no predecessor,
    predecessor lists mention only nodes of the graph -/
structure Rooted (g : Graph) : Prop where
  pos : 0 < g.n
  entry : g.pred 0 = []
  closed : ∀ i, i < g.n → ∀ j ∈ g.pred i, j < g.n
  reach : ∀ i, i < g.n → Reachable g i

end Circomspect.Graph
