/-
C12 as an executable predicate on a CFG skeleton (`wfProblems` lists the violated clauses; the
empty list means well formed).  Dominance is the path-based relation of `Spec/Graph.lean`,
computed by the verified `Dominators.computeDominators` (C15).
-/
import Circomspect.Model.CfgLift
import Circomspect.Model.Dominators

namespace Circomspect.CfgSpec
open Circomspect.CfgLift

def graphOf (bs : List Block) : Graph.Graph :=
  { n := bs.length, pred := fun i => (bs.getD i default).preds }

/-- nodes reachable from the entry along successor edges (fuel: number of blocks) -/
def reachable (bs : List Block) : List Nat :=
  let step (seen : List Nat) : List Nat :=
    seen.foldl (fun acc i => (bs.getD i default).succs.foldl (fun acc j => if acc.contains j then acc else acc ++ [j]) acc) seen
  (List.range bs.length).foldl (fun seen _ => step seen) [0]

-- loop nesting depth of every statement of the source skeleton: (range, depth); the branch of
-- a `while` counts as outside its own loop
mutual
def depths : Stmt → Nat → List (Loc × Nat)
  | .simple loc, d => [(loc, d)]
  | .init cs, d => depthsList cs d
  | .block cs, d => depthsList cs d
  | .ite loc t, d => (loc, d) :: depths t d
  | .iteElse loc t e, d => (loc, d) :: depths t d ++ depths e d
  | .while loc b, d => (loc, d) :: depths b (d + 1)
def depthsList : Stmts → Nat → List (Loc × Nat)
  | .nil, _ => []
  | .cons s rest, d => depths s d ++ depthsList rest d
end

def stmtLoc : IStmt → Loc
  | .simple l => l
  | .branch l _ _ => l

def isBranch : IStmt → Bool
  | .branch _ _ _ => true
  | _ => false

def wfProblems (ast : Stmt) (bs : List Block) : List String :=
  let n := bs.length
  let idx := List.range n
  let blk (i : Nat) : Block := bs.getD i default
  let p1 := if n = 0 then ["no blocks"] else if (blk 0).preds != [] then ["entry block has a predecessor"] else []
  let reach := reachable bs
  let p2 := if idx.all (fun i => reach.contains i) then [] else ["a block is unreachable from the entry"]
  let p3 := if idx.all (fun i => (blk i).succs.all (fun j => decide (j < n) && (blk j).preds.contains i) &&
                               (blk i).preds.all (fun j => decide (j < n) && (blk j).succs.contains i))
            then [] else ["successor and predecessor sets do not mirror each other"]
  let p4 := if idx.all (fun i =>
      let b := blk i
      b.stmts.dropLast.all (fun s => !isBranch s) &&
      (match b.stmts.getLast? with
       | some (.branch _ t f) => decide (t < n) && b.succs.contains t &&
           (match f with | some f => decide (f < n) && b.succs.contains f | none => true)
       | _ => true))
    then [] else ["a branch is not the last statement of its block or a target is not a successor"]
  let p5 := if idx.all (fun i =>
      let b := blk i
      let hasBr := match b.stmts.getLast? with | some (.branch _ _ _) => true | _ => false
      decide (b.succs.length ≤ 2) && (hasBr || decide (b.succs.length ≤ 1)))
    then [] else ["too many successors"]
  let p6 := match Dominators.computeDominators (graphOf bs) with
    | none => ["dominators: no fixpoint"]
    | some D => if idx.all (fun j => idx.all (fun i => !(D j i) || decide (i ≤ j))) then []
                else ["a block dominates a block with a smaller index"]
  let ds := depths ast 0
  let p7 := if idx.all (fun i => (blk i).stmts.all (fun s =>
      let l := stmtLoc s
      let cands := ds.filter (fun e => e.1 == l)
      cands.isEmpty || cands.any (fun e => e.2 == (blk i).depth)))
    then [] else ["recorded loop depth differs from the number of enclosing loops"]
  p1 ++ p2 ++ p3 ++ p4 ++ p5 ++ p6 ++ p7

end Circomspect.CfgSpec
