/-
Reference comment lexer (C05), written from the property text:

* comment openers are recognised only in code; `//` opens a line comment, `/*` a block comment;
* a line comment ends at the next newline (which is kept) or at the end of input;
* a block comment ends at the first following `*/`, whatever it contains;
* every byte of a comment (openers and closers included) is replaced by one blank, so byte
  offsets are preserved;
* a block comment that is never closed is an error carrying the byte offset of its opener.
String literals are not special (as in Circom).
-/
namespace Circomspect.StripSpec

def blank (c : Char) : List Char := List.replicate c.utf8Size ' '

/-- total UTF-8 length of a character list -/
def bytes (s : List Char) : Nat := (s.map Char.utf8Size).foldl (· + ·) 0

mutual
/-- in code; `off` is the byte offset of the head of the list -/
def code : Nat → List Char → Except Nat (List Char)
  | _, [] => .ok []
  | off, '/' :: '/' :: rest => (line (off + 2) rest).map ([' ', ' '] ++ ·)
  | off, '/' :: '*' :: rest => (block off (off + 2) rest).map ([' ', ' '] ++ ·)
  | off, c :: rest => (code (off + c.utf8Size) rest).map (c :: ·)
/-- inside a line comment -/
def line : Nat → List Char → Except Nat (List Char)
  | _, [] => .ok []
  | off, '\n' :: rest => (code (off + 1) rest).map ('\n' :: ·)
  | off, c :: rest => (line (off + c.utf8Size) rest).map (blank c ++ ·)
/-- inside a block comment opened at byte `start` -/
def block : Nat → Nat → List Char → Except Nat (List Char)
  | start, _, [] => .error start
  | _, off, '*' :: '/' :: rest => (code (off + 2) rest).map ([' ', ' '] ++ ·)
  | start, off, c :: rest => (block start (off + c.utf8Size) rest).map (blank c ++ ·)
end

def strip (s : List Char) : Except Nat (List Char) := code 0 s

end Circomspect.StripSpec
