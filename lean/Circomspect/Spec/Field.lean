/-
Circom's field semantics (C16), written from the language documentation ("Basic operators",
"Field elements"), not from the implementation.  Everything is over `Nat`; `p` is the prime,
operands are arbitrary naturals and are read modulo `p` where Circom does.
-/
namespace Circomspect.FieldSpec

/-- number of binary digits (`1` for zero). -/
def bits (n : Nat) : Nat := if n < 2 then 1 else bits (n / 2) + 1
decreasing_by omega

/-- signed representative in `(-p/2, p/2]` of a canonical element `z < p`. -/
def sval (p z : Nat) : Int := if p / 2 + 1 ≤ z then (z : Int) - (p : Int) else (z : Int)

/-- result of a specified operation. `undef`: the operation has no value (the implementation
    must answer with an error); `over`: an over-large shift (an error is what the property asks
    for). -/
inductive Res | val (n : Nat) | undef | over
  deriving DecidableEq, Repr

def add (p a b : Nat) : Nat := (a + b) % p
def sub (p a b : Nat) : Nat := (a % p + (p - b % p)) % p
def mul (p a b : Nat) : Nat := (a * b) % p
def neg (p a : Nat) : Nat := (p - a % p) % p
def pow (p a b : Nat) : Nat := (a ^ b) % p

/-- `c` is the quotient `a / b` in the field. -/
def IsFieldDiv (p a b c : Nat) : Prop := c < p ∧ (c * b) % p = a % p

def idiv (p a b : Nat) : Res := if b % p = 0 then .undef else .val ((a % p) / (b % p))
def mod (p a b : Nat) : Res := if b % p = 0 then .undef else .val ((a % p) % (b % p))

def shrCore (p a k : Nat) : Res := if bits p ≤ k then .over else .val (a / 2 ^ k)
def shlCore (p a k : Nat) : Res :=
  if bits p ≤ k then .over else .val (((a * 2 ^ k) % 2 ^ bits p) % p)

/-- `a >> k`: for `k ≤ p/2` a right shift, otherwise a left shift by `p - k`. -/
def shr (p a k : Nat) : Res := if k ≤ p / 2 then shrCore p a k else shlCore p a (p - k)
def shl (p a k : Nat) : Res := if k ≤ p / 2 then shlCore p a k else shrCore p a (p - k)

def band (p a b : Nat) : Nat := (a &&& b) % p
def bor (p a b : Nat) : Nat := (a ||| b) % p
def bxor (p a b : Nat) : Nat := (a ^^^ b) % p
/-- 256-bit complement, reduced. -/
def compl (p a : Nat) : Nat := (2 ^ 256 - 1 - a % 2 ^ 256) % p

def truthy (p a : Nat) : Bool := a % p != 0
def b2n (b : Bool) : Nat := if b then 1 else 0
def lnot (p a : Nat) : Nat := b2n (!truthy p a)
def land (p a b : Nat) : Nat := b2n (truthy p a && truthy p b)
def lor (p a b : Nat) : Nat := b2n (truthy p a || truthy p b)

def eq (p a b : Nat) : Nat := b2n (a % p == b % p)
def ne (p a b : Nat) : Nat := b2n (a % p != b % p)
def lt (p a b : Nat) : Nat := b2n (sval p (a % p) < sval p (b % p))
def le (p a b : Nat) : Nat := b2n (sval p (a % p) ≤ sval p (b % p))
def gt (p a b : Nat) : Nat := b2n (sval p (a % p) > sval p (b % p))
def ge (p a b : Nat) : Nat := b2n (sval p (a % p) ≥ sval p (b % p))

/-- Dispatcher for the driver (`div` is relational and is checked separately). -/
def evalOp (op : String) (p a b : Nat) : Option Res :=
  match op with
  | "add" => some (.val (add p a b))
  | "sub" => some (.val (sub p a b))
  | "mul" => some (.val (mul p a b))
  | "idiv" => some (idiv p a b)
  | "mod" => some (mod p a b)
  | "pow" => some (.val (pow p a b))
  | "neg" => some (.val (neg p a))
  | "compl" => some (.val (compl p a))
  | "shl" => some (shl p a b)
  | "shr" => some (shr p a b)
  | "or" => some (.val (bor p a b))
  | "and" => some (.val (band p a b))
  | "xor" => some (.val (bxor p a b))
  | "not" => some (.val (lnot p a))
  | "bor" => some (.val (lor p a b))
  | "band" => some (.val (land p a b))
  | "eq" => some (.val (eq p a b))
  | "ne" => some (.val (ne p a b))
  | "lt" => some (.val (lt p a b))
  | "le" => some (.val (le p a b))
  | "gt" => some (.val (gt p a b))
  | "ge" => some (.val (ge p a b))
  | _ => none

end Circomspect.FieldSpec
