/-
The reachability helpers of `control_flow_graph/cfg.rs` (`get_successors`, `get_predecessors`, `get_interval`) and the
branch regions built from them (`get_true_branch`, `get_false_branch`), which the taint analysis uses to let the
variables of a condition taint everything assigned under it.

Since the repair a7712ea the helpers are work lists (every block is expanded once); the loop is the one of
`Model/Taint.lean` (`workLoop`), run on the edges of the CFG. The dominance frontier is a parameter here; the driver
takes it from `Model/Dominators.lean`.
-/
import Circomspect.Model.Taint

namespace Circomspect.CfgReach
open Circomspect.Taint

abbrev Edges := List (Nat × Nat)

/-- the work list started from `starts`, with a budget it never exhausts (`closure_spec`) -/
def closure (es : Edges) (starts : List Nat) : List Nat :=
  (workLoop es (closureFuel es starts.length) starts []).getD []

def rev (es : Edges) : Edges := es.map (fun e => (e.2, e.1))

/-- `get_successors`: everything reachable from the block; the block itself is removed, also when it lies on a cycle -/
def getSuccessors (es : Edges) (b : Nat) : List Nat := (closure es [b]).filter (fun x => x != b)

/-- `get_predecessors` -/
def getPredecessors (es : Edges) (b : Nat) : List Nat := (closure (rev es) [b]).filter (fun x => x != b)

/-- `get_interval`: the successors of `s` (with `s`) that are strict predecessors of `e` -/
def getInterval (es : Edges) (s e : Nat) : List Nat :=
  (closure es [s]).filter (fun x => (getPredecessors es e).contains x)

/-- the blocks of one side of an if statement: from its first block up to the blocks of the dominance frontier of that
    block, or everything reachable when the frontier is empty (the sides do not join) -/
def branch (es : Edges) (df : Nat → List Nat) (start : Nat) : List Nat :=
  match df start with
  | [] => getSuccessors es start ++ [start]
  | ends => ends.flatMap (getInterval es start)

/-- `get_true_branch` -/
def trueBranch (es : Edges) (df : Nat → List Nat) (t : Nat) : List Nat := branch es df t

/-- `get_false_branch`: empty when there is no false target or when the false target is where the true side ends -/
def falseBranch (es : Edges) (df : Nat → List Nat) (t : Nat) (f : Option Nat) : List Nat :=
  match f with
  | none => []
  | some f => if (df t).contains f then [] else branch es df f

/-- the walk of `get_join_conditions`: backwards from the predecessors of `j`; the immediate dominator of `j` is visited but not
    expanded (every path to `j` passes through it) -/
def joinWalk (es : Edges) (idom : Option Nat) (j : Nat) : List Nat :=
  closure ((rev es).filter (fun e => some e.1 != idom)) ((es.filter (fun e => e.2 == j)).map (·.1))

/-- `get_join_conditions` for block `j`: the visited blocks that end in an if statement; only blocks with phi statements are looked at -/
def joinConds (es : Edges) (isBranch hasPhi : Nat → Bool) (idom : Option Nat) (j : Nat) : List Nat :=
  if hasPhi j then (joinWalk es idom j).filter isBranch else []

end Circomspect.CfgReach
