/-
Operational model of value and degree propagation (C06, C07, C20):
`expression_impl.rs` (`propagate_degrees`, `propagate_values`, the operator tables),
`statement_impl.rs`, `basic_block.rs` and the two `while rerun` loops of `cfg.rs`.

The model reproduces the evaluation order of the Rust code *including* the short-circuiting
`result = result || f()`: once something changed in a pass, the remaining `f()` of that pass are
not evaluated, so a pass performs at most a few updates and the loops need many passes.  This is
what lets the model predict the state after exactly `k` passes (C20: the time box may cut the
loop after any pass).
-/
import Circomspect.Model.Ir
import Circomspect.Model.Field

namespace Circomspect.Propagate
open Circomspect.Ir

-- ------------------------------------------------------------------------------- degrees

/-- `Degree::{add, mul, …}` -/
def degOp (op : String) (a b : Nat) : Nat :=
  if op = "add" then (if a = 2 ∧ b = 2 then 3 else max a b)      -- after the `fix:` for the sum of two products
  else if op = "sub" then (if a = 2 ∧ b = 2 then 3 else max a b)
  else if op = "mul" then (if a = 0 then b else if b = 0 then a else if a = 1 ∧ b = 1 then 2 else 3)
  else if op = "div" then (if b = 0 then a else 3)
  else (if a = 0 ∧ b = 0 then 0 else 3)     -- pow, idiv, mod, shifts, comparisons, bitwise, boolean

def degPrefix (op : String) (a : Nat) : Nat :=
  if op = "neg" then a
  else (if a = 0 then 0 else 3)            -- compl, not (after the `fix:`)

/-- `DegreeRange::{add, …}`: end points are mapped separately -/
def rangeOp (op : String) (r s : Range) : Range := (degOp op r.1 s.1, degOp op r.2 s.2)
def rangePrefix (op : String) (r : Range) : Range := (degPrefix op r.1, degPrefix op r.2)
def rangeInf (r s : Range) : Range := (min r.1 s.1, max r.2 s.2)

/-- `DegreeRange::iter_opt` -/
def iterOpt (rs : List (Option Range)) : Option Range :=
  match rs with
  | [] => none
  | r :: rest =>
    if (r :: rest).all Option.isSome then
      some ((rest.filterMap id).foldl rangeInf (r.getD (0, 0)))
    else none

structure DegEnv where
  ranges : List (VName × Range)
  types : List (VName × VType)
  assigned : List VName            -- variables assigned to by some statement seen so far
  condJoin : Bool := false         -- the paths meeting at the head of the current block are chosen by a condition not known to be constant

def DegEnv.degree (env : DegEnv) (v : VName) : Option Range := (env.ranges.find? (·.1 == v)).map (·.2)
def DegEnv.isAssigned (env : DegEnv) (v : VName) : Bool := env.assigned.contains v
def DegEnv.isLocal (env : DegEnv) (v : VName) : Bool := (env.types.find? (·.1 == v)).map (·.2) == some VType.local_
/-- `set_degree`: inserts (replacing); `true` on the first insertion -/
def DegEnv.setDegree (env : DegEnv) (v : VName) (r : Range) : DegEnv × Bool :=
  match env.degree v with
  | none => ({ env with ranges := (v, r) :: env.ranges }, true)
  | some _ => ({ env with ranges := (v, r) :: env.ranges.filter (·.1 != v) }, false)
def DegEnv.setType (env : DegEnv) (v : VName) (t : VType) : DegEnv :=
  match env.types.find? (·.1 == v) with
  | none => { env with types := (v, t) :: env.types }
  | some _ => env

/-- `DegreeKnowledge::set_degree`: overwrites, `true` on first update -/
def setDeg (a : Ann) (r : Range) : Ann × Bool := ({ a with deg := some r }, a.deg.isNone)

/-- `if let Some(range) = r { result = result || meta.set_degree(range) }` -/
def orSetDeg (a : Ann) (changed : Bool) (r : Option Range) : Ann × Bool :=
  match r with
  | none => (a, changed)
  | some r => if changed then (a, true) else setDeg a r

/-- `constant_indices`: `some true` all array indices constant, `some false` all known and one not
    constant, `none` some index degree still unknown -/
def constIdx : Accs → Option Bool
  | .nil => some true
  | .cons (.cmp _) rest => constIdx rest
  | .cons (.idx e) rest =>
    match e.ann.deg with
    | none => none
    | some r => (constIdx rest).map (fun b => decide (r.2 = 0) && b)

mutual
/-- `Expression::propagate_degrees` -/
def degExpr (env : DegEnv) : Expr → Expr × Bool
  | .infix a op l r =>
    let (l', c1) := degExpr env l
    let (r', c2) := if c1 then (r, true) else degExpr env r
    let rng := match l'.ann.deg, r'.ann.deg with
      | some x, some y => some (rangeOp op x y)
      | _, _ => none
    let (a', c) := orSetDeg a c2 rng
    (.infix a' op l' r', c)
  | .prefix a op e =>
    let (e', c1) := degExpr env e
    let (a', c) := orSetDeg a c1 (e'.ann.deg.map (rangePrefix op))
    (.prefix a' op e', c)
  | .switch a c t f =>
    let (c', k1) := degExpr env c
    let (t', k2) := if k1 then (t, true) else degExpr env t
    let (f', k3) := if k2 then (f, true) else degExpr env f
    match c'.ann.deg with
    | none => (.switch a c' t' f', k3)
    | some cr =>
      if cr.2 = 0 then
        let (a', k) := orSetDeg a k3 (iterOpt [t'.ann.deg, f'.ann.deg])
        (.switch a' c' t' f', k)
      else (.switch a c' t' f', k3)
  | .var a v =>
    let (a', c) := orSetDeg a false (env.degree v)
    (.var a' v, c)
  | .num a n =>
    let (a', c) := setDeg a (0, 0)
    (.num a' n, c)
  | .call a name args =>
    let (args', c1) := degExprs env args false
    let allConst := args'.toList.all (fun x => match x.ann.deg with | some r => r.2 = 0 | none => false)
    let (a', c) := if allConst then orSetDeg a c1 (some (0, 0)) else (a, c1)
    (.call a' name args', c)
  | .arr a vals =>
    let (vals', c1) := degExprs env vals false
    let (a', c) := orSetDeg a c1 (iterOpt (vals'.toList.map (·.ann.deg)))
    (.arr a' vals', c)
  | .acc a v access =>
    let (access', c1) := degAccs env access false
    let rng := match constIdx access' with
      | some true => env.degree v
      | some false => some (3, 3)            -- selected by a non-constant index: non-quadratic
      | none => none
    let (a', c) := orSetDeg a c1 rng
    (.acc a' v access', c)
  | .upd a v access rhe =>
    let (rhe', c1) := degExpr env rhe
    let (access', c2) := degAccs env access c1
    let rng := match constIdx access' with
      | some true =>
        (match env.degree v with
         | none => if env.isAssigned v then none else rhe'.ann.deg     -- "first assignment to the array"
         | some vr => iterOpt [some vr, rhe'.ann.deg])
      | some false => some (3, 3)
      | none => none
    let (a', c) := orSetDeg a c2 rng
    (.upd a' v access' rhe', c)
  | .phi a args =>
    -- which argument is taken is decided by the conditions on the paths to the block: no degree unless they are constant (repair of
    -- `F-C07-control-dependence`; cf. the switch expression)
    if env.condJoin then (.phi a args, false)
    else
      let (a', c) := orSetDeg a false (iterOpt (args.map env.degree))
      (.phi a' args, c)
/-- `for arg in args { result = result || arg.propagate_degrees(env) }` -/
def degExprs (env : DegEnv) : Exprs → Bool → Exprs × Bool
  | .nil, c => (.nil, c)
  | .cons e rest, c =>
    let (e', c1) := if c then (e, true) else degExpr env e
    let (rest', c2) := degExprs env rest c1
    (.cons e' rest', c2)
def degAccs (env : DegEnv) : Accs → Bool → Accs × Bool
  | .nil, c => (.nil, c)
  | .cons (.idx e) rest, c =>
    let (e', c1) := if c then (e, true) else degExpr env e
    let (rest', c2) := degAccs env rest c1
    (.cons (.idx e') rest', c2)
  | .cons (.cmp n) rest, c =>
    let (rest', c2) := degAccs env rest c
    (.cons (.cmp n) rest', c2)
end

def degExprList (env : DegEnv) : List Expr → Bool → List Expr × Bool
  | [], c => ([], c)
  | e :: rest, c =>
    let (e', c1) := if c then (e, true) else degExpr env e
    let (rest', c2) := degExprList env rest c1
    (e' :: rest', c2)

/-- `Statement::propagate_degrees` -/
def degStmt (env : DegEnv) : Stmt → Stmt × DegEnv × Bool
  | .decl names ty dims =>
    let (env, c) := names.foldl (fun (acc : DegEnv × Bool) n =>
      let (env, c) := acc
      let (env, c) :=
        if ty != VType.local_ then
          if c then (env, true) else env.setDegree n (1, 1)
        else (env, c)
      (env.setType n ty, c)) (env, false)
    (.decl names ty dims, env, c)
  | .sub a v ty op rhe =>
    let env := { env with assigned := if env.assigned.contains v then env.assigned else v :: env.assigned }
    let (rhe', c1) := degExpr env rhe
    if env.isLocal v then
      match rhe'.ann.deg with
      | some r =>
        if c1 then (.sub a v ty op rhe', env, true)
        else let (env', c) := env.setDegree v r; (.sub a v ty op rhe', env', c)
      | none => (.sub a v ty op rhe', env, c1)
    else (.sub a v ty op rhe', env, c1)
  | .log args =>
    let (args', c) := args.foldl (fun (acc : List LogArg × Bool) x =>
      match x with
      | .str => (acc.1 ++ [.str], acc.2)
      | .expr e => let (e', c) := if acc.2 then (e, true) else degExpr env e; (acc.1 ++ [.expr e'], c)) ([], false)
    (.log args', env, c)
  | .ite cond => let (e, c) := degExpr env cond; (.ite e, env, c)
  | .ret value => let (e, c) := degExpr env value; (.ret e, env, c)
  | .assert arg => let (e, c) := degExpr env arg; (.assert e, env, c)
  | .ceq l r =>
    let (l', c1) := degExpr env l
    let (r', c2) := if c1 then (r, true) else degExpr env r
    (.ceq l' r', env, c2)

/-- the condition of the if statement at the end of block `h` has a degree, and it is constant -/
def condConst (blocks : List Block) (h : Nat) : Bool :=
  match (blocks.getD h { stmts := [] }).stmts.getLast? with
  | some (.ite cond) => (match cond.ann.deg with | some r => r.2 == 0 | none => false)
  | _ => false

/-- `env.set_conditional_join(..)` before a block is visited: some condition that chooses between the incoming paths is not
    (known to be) constant -/
def setJoin (blocks : List Block) (env : DegEnv) (b : Block) : DegEnv :=
  { env with condJoin := b.conds.any (fun h => !condConst blocks h) }

/-- one pass of `for index in .. { if rerun { break } env.set_conditional_join(..); rerun = self.basic_blocks[index].propagate_degrees(&mut env) }`;
    the conditions are read from the blocks as they are at the start of the pass: a pass stops at the first block it changes, so the
    blocks before the current one are unchanged when it is visited -/
def degPass (env : DegEnv) (blocks : List Block) : List Block × DegEnv × Bool :=
  let step (acc : List Stmt × DegEnv × Bool) (s : Stmt) : List Stmt × DegEnv × Bool :=
    let (done, env, c) := acc
    if c then (done ++ [s], env, true)
    else let (s', env', c') := degStmt env s; (done ++ [s'], env', c')
  blocks.foldl (fun (acc : List Block × DegEnv × Bool) b =>
    let (bs, env, c) := acc
    if c then (bs ++ [b], env, true)
    else
      let (ss, env', c') := b.stmts.foldl step ([], setJoin blocks env b, false)
      (bs ++ [{ b with stmts := ss }], env', c')) ([], env, false)

/-- `VariableName::without_version` -/
def _root_.Circomspect.Ir.VName.base (v : VName) : VName := { v with version := none }

/-- `is_constant_expression`: built from numbers, parameters of the template and the given variables (all versions of them) -/
def constExpr (ps : List VName) (C : List VName) : Expr → Bool
  | .num _ _ => true
  | .var _ v => ps.contains v || C.contains v.base
  | .infix _ _ l r => constExpr ps C l && constExpr ps C r
  | .prefix _ _ e => constExpr ps C e
  | .phi _ args => args.all (fun a => C.contains a.base)
  | _ => false

def isPhiE : Expr → Bool
  | .phi _ _ => true
  | _ => false

/-- the condition that ends block `h` is a constant expression -/
def condSimple (ps C : List VName) (blocks : List Block) (h : Nat) : Bool :=
  match (blocks.getD h { stmts := [] }).stmts.getLast? with
  | some (.ite cond) => constExpr ps C cond
  | _ => false

/-- all assignments (to any kind of variable): unversioned target, block index, the conditions of the block, the assigned expression -/
def assignmentsOf (blocks : List Block) : List (VName × List Nat × Option VType × Expr) :=
  blocks.flatMap (fun b => b.stmts.filterMap (fun s => match s with
    | .sub _ v ty _ rhe => some (v.base, b.conds, ty, rhe)
    | _ => none))

/-- the assignment keeps its target among the constant variables: the expression is constant, and if it is a phi expression so is
    every condition that chooses between its arguments -/
def assignmentOk (ps C : List VName) (blocks : List Block) (a : VName × List Nat × Option VType × Expr) : Bool :=
  constExpr ps C a.2.2.2 && !(isPhiE a.2.2.2 && a.2.1.any (fun h => !condSimple ps C blocks h))

/-- one round of `get_constant_variables`: the variables all of whose assignments are still fine -/
def constRound (ps : List VName) (blocks : List Block) (C : List VName) : List VName :=
  C.filter (fun n => (assignmentsOf blocks).all (fun a => a.1 != n || assignmentOk ps C blocks a))

def constIter (ps : List VName) (blocks : List Block) : Nat → List VName → List VName
  | 0, C => C
  | fuel + 1, C => let C' := constRound ps blocks C; if C'.length == C.length then C else constIter ps blocks fuel C'

/-- the names declared as signals or components -/
def nonLocalNames (blocks : List Block) : List VName :=
  blocks.flatMap (fun b => b.stmts.flatMap (fun s => match s with
    | .decl names ty _ => if ty != VType.local_ then names else []
    | _ => []))

/-- the set is closed: every assignment to one of its variables is fine (so a further round removes nothing), and none of them is
    declared as a signal or component. The Rust loop stops exactly when a round removes nothing; the model re-checks the result, so
    that the theorems about `degInit` need no statement about the iteration. -/
def constClosed (ps : List VName) (blocks : List Block) (C : List VName) : Bool :=
  (assignmentsOf blocks).all (fun a => !C.contains a.1 || assignmentOk ps C blocks a) &&
  (nonLocalNames blocks).all (fun n => !C.contains n.base)

/-- `get_constant_variables`: the versions (targets of assignments) of the local variables of a template that are constant by
    construction (since the `fix:` for loop counters; nothing for a function, whose parameters need not be constant) -/
def constVars (cfg : Cfg) : List VName :=
  if cfg.isFunction then []
  else
    let cands := ((assignmentsOf cfg.blocks).filterMap (fun a => if a.2.2.1 == some VType.local_ then some a.1 else none)).eraseDups
    let C := constIter cfg.params cfg.blocks (cands.length + 1) cands
    if constClosed cfg.params cfg.blocks C then
      (stmtTargets cfg.blocks).filter (fun v => C.contains v.base)
    else []
where
  stmtTargets (blocks : List Block) : List VName :=
    blocks.flatMap (fun b => b.stmts.filterMap (fun s => match s with | .sub _ v _ _ _ => some v | _ => none))

/-- the environment `propagate_degrees` starts from: the parameters, and the variables that are constant by construction (a loop
    counter depends on itself, so propagation never finds its degree) -/
def degInit (cfg : Cfg) : DegEnv :=
  (constVars cfg).foldl (fun env v => (env.setDegree v (0, 0)).1)
    (cfg.params.foldl (fun env p =>
      let env := env.setType p .local_
      (env.setDegree p (if cfg.isFunction then (0, 1) else (0, 0))).1) { ranges := [], types := [], assigned := [] })

/-- the `while rerun` loop with a budget of `fuel` passes (the time box): returns the blocks
    after at most `fuel` passes and whether the fixpoint was reached -/
def degLoop : Nat → DegEnv → List Block → List Block × Bool
  | 0, _, bs => (bs, false)
  | fuel + 1, env, bs =>
    let (bs', env', c) := degPass env bs
    if c then degLoop fuel env' bs' else (bs', true)

-- ------------------------------------------------------------------------------- values

structure ValEnv where
  prime : Int
  vals : List (VName × Val)
  nonConstant : List VName

def ValEnv.get (env : ValEnv) (v : VName) : Option Val := (env.vals.find? (·.1 == v)).map (·.2)

/-- `add_variable` (after the `fix:` 5f60a27) -/
def ValEnv.add (env : ValEnv) (v : VName) (x : Val) : ValEnv :=
  if env.nonConstant.contains v then env
  else match env.get v with
    | some old => if old = x then env else { env with vals := env.vals.filter (·.1 != v), nonConstant := v :: env.nonConstant }
    | none => { env with vals := (v, x) :: env.vals }

def setVal (a : Ann) (x : Val) : Ann × Bool := ({ a with val := some x }, a.val.isNone)
def orSetVal (a : Ann) (changed : Bool) (x : Option Val) : Ann × Bool :=
  match x with
  | none => (a, changed)
  | some x => if changed then (a, true) else setVal a x

def outVal (o : Field.Out) : Option Val := match o with | .ok v => some (.fe v) | _ => none
def outBool (o : Field.Out) (p : Int) : Option Val :=
  match o with | .ok v => some (.bool (Field.asBool v p)) | _ => none

/-- `ExpressionInfixOpcode::propagate_values` -/
def valInfix (op : String) (l r : Option Val) (p : Int) : Option Val :=
  match l, r with
  | some (.fe a), some (.fe b) =>
    if ["mul", "div", "add", "sub", "pow", "idiv", "mod", "shl", "shr", "or", "and", "xor"].contains op then
      outVal (Field.evalOp op a b p)
    else if ["le", "ge", "lt", "gt", "eq", "ne"].contains op then outBool (Field.evalOp op a b p) p
    else none
  | some (.bool a), some (.bool b) =>
    if op == "band" then some (.bool (a && b)) else if op == "bor" then some (.bool (a || b)) else none
  | _, _ => none

/-- `ExpressionPrefixOpcode::propagate_values` -/
def valPrefix (op : String) (x : Option Val) (p : Int) : Option Val :=
  match x with
  | some (.fe a) => if op == "neg" then outVal (Field.evalOp "neg" a 0 p) else if op == "compl" then outVal (Field.evalOp "compl" a 0 p) else none
  | some (.bool b) => if op == "not" then some (.bool (!b)) else none
  | none => none

/-- the value of `c ? t : f` when the condition's value is known -/
def switchVal (c t f : Option Val) : Option Val :=
  match c with
  | some (.bool true) => t
  | some (.bool false) => f
  | some (.fe n) => if n ≠ 0 then t else f
  | none => none

mutual
/-- `Expression::propagate_values` -/
def valExpr (env : ValEnv) : Expr → Expr × Bool
  | .infix a op l r =>
    let (l', c1) := valExpr env l
    let (r', c2) := if c1 then (r, true) else valExpr env r
    let (a', c) := orSetVal a c2 (valInfix op l'.ann.val r'.ann.val env.prime)
    (.infix a' op l' r', c)
  | .prefix a op e =>
    let (e', c1) := valExpr env e
    let (a', c) := orSetVal a c1 (valPrefix op e'.ann.val env.prime)
    (.prefix a' op e', c)
  | .switch a c t f =>
    let (c', k1) := valExpr env c
    let (t', k2) := valExpr env t
    let (f', k3) := valExpr env f
    let k := k1 || k2 || k3
    let (a', k') := orSetVal a k (switchVal c'.ann.val t'.ann.val f'.ann.val)
    (.switch a' c' t' f', k')
  | .var a v =>
    match env.get v with
    | some x => let (a', c) := setVal a x; (.var a' v, c)
    | none => (.var a v, false)
  | .num a n => let (a', c) := setVal a (.fe (n % env.prime)); (.num a' n, c)     -- a literal is read modulo the prime (after the `fix:`)
  | .call a name args => let (args', c) := valExprs env args false; (.call a name args', c)
  | .arr a vals => let (vals', c) := valExprs env vals false; (.arr a vals', c)
  | .acc a v access => let (access', c) := valAccs env access false; (.acc a v access', c)
  | .upd a v access rhe =>
    let (rhe', c1) := valExpr env rhe
    let (access', c2) := valAccs env access c1
    (.upd a v access' rhe', c2)
  | .phi a args =>
    let vals := args.map env.get
    if vals.all Option.isSome then
      match vals.filterMap id with
      | [] => (.phi a args, false)
      | x :: rest => if rest.all (· == x) then let (a', c) := setVal a x; (.phi a' args, c) else (.phi a args, false)
    else (.phi a args, false)
def valExprs (env : ValEnv) : Exprs → Bool → Exprs × Bool
  | .nil, c => (.nil, c)
  | .cons e rest, c =>
    let (e', c1) := if c then (e, true) else valExpr env e
    let (rest', c2) := valExprs env rest c1
    (.cons e' rest', c2)
def valAccs (env : ValEnv) : Accs → Bool → Accs × Bool
  | .nil, c => (.nil, c)
  | .cons (.idx e) rest, c =>
    let (e', c1) := if c then (e, true) else valExpr env e
    let (rest', c2) := valAccs env rest c1
    (.cons (.idx e') rest', c2)
  | .cons (.cmp n) rest, c =>
    let (rest', c2) := valAccs env rest c
    (.cons (.cmp n) rest', c2)
end

def isUpd : Expr → Bool
  | .upd _ _ _ _ => true
  | _ => false

/-- `Statement::propagate_values` -/
def valStmt (env : ValEnv) : Stmt → Stmt × ValEnv × Bool
  | .decl names ty dims =>
    let (dims', c) := dims.foldl (fun (acc : List Expr × Bool) e =>
      let (e', c) := if acc.2 then (e, true) else valExpr env e; (acc.1 ++ [e'], c)) ([], false)
    (.decl names ty dims', env, c)
  | .sub a v ty op rhe =>
    let (rhe', c1) := valExpr env rhe
    if !isUpd rhe' then
      match rhe'.ann.val with
      | some x =>
        let env' := env.add v x
        let (a', c) := orSetVal a c1 (some x)
        (.sub a' v ty op rhe', env', c)
      | none => (.sub a v ty op rhe', env, c1)
    else (.sub a v ty op rhe', env, c1)
  | .log args =>
    let (args', c) := args.foldl (fun (acc : List LogArg × Bool) x =>
      match x with
      | .str => (acc.1 ++ [.str], acc.2)
      | .expr e => let (e', c) := if acc.2 then (e, true) else valExpr env e; (acc.1 ++ [.expr e'], c)) ([], false)
    (.log args', env, c)
  | .ite cond => let (e, c) := valExpr env cond; (.ite e, env, c)
  | .ret value => let (e, c) := valExpr env value; (.ret e, env, c)
  | .assert arg => let (e, c) := valExpr env arg; (.assert e, env, c)
  | .ceq l r =>
    let (l', c1) := valExpr env l
    let (r', c2) := if c1 then (r, true) else valExpr env r
    (.ceq l' r', env, c2)

/-- a phi statement with fewer arguments than the block has predecessors: `BasicBlock::propagate_values`
    skips it (it may lack an argument for an incoming edge on which the variable is still unassigned) -/
def phiShort (npreds : Nat) : Stmt → Bool
  | .sub _ _ _ _ (.phi _ args) => decide (args.length < npreds)
  | _ => false

def valPass (env : ValEnv) (blocks : List Block) : List Block × ValEnv × Bool :=
  let step (n : Nat) (acc : List Stmt × ValEnv × Bool) (s : Stmt) : List Stmt × ValEnv × Bool :=
    let (done, env, c) := acc
    if c then (done ++ [s], env, true)
    else if phiShort n s then (done ++ [s], env, false)
    else let (s', env', c') := valStmt env s; (done ++ [s'], env', c')
  blocks.foldl (fun (acc : List Block × ValEnv × Bool) b =>
    let (bs, env, c) := acc
    if c then (bs ++ [b], env, true)
    else
      let (ss, env', c') := b.stmts.foldl (step b.npreds) ([], env, false)
      (bs ++ [{ b with stmts := ss }], env', c')) ([], env, false)

/-- the pre-pass of `Cfg::propagate_values`: an unversioned variable (signal, component) assigned by a second
    substitution that is not an element-wise update is marked as not constant -/
def multiStep (acc : List VName × List VName) : Stmt → List VName × List VName
  | .sub _ v _ _ rhe =>
    if v.version.isNone && !isUpd rhe then
      (if acc.1.contains v then (acc.1, v :: acc.2) else (v :: acc.1, acc.2))
    else acc
  | _ => acc

def multiOf (P : List Stmt) : List VName := (P.foldl multiStep ([], [])).2

mutual
/-- the variables an expression reads (`variables_read`) -/
def namesE : Expr → List VName
  | .infix _ _ l r => namesE l ++ namesE r
  | .prefix _ _ e => namesE e
  | .switch _ c t f => namesE c ++ namesE t ++ namesE f
  | .var _ v => [v]
  | .num _ _ => []
  | .call _ _ args => namesEs args
  | .arr _ vals => namesEs vals
  | .acc _ v access => v :: namesAs access
  | .upd _ v access rhe => v :: (namesAs access ++ namesE rhe)
  | .phi _ args => args
def namesEs : Exprs → List VName
  | .nil => []
  | .cons e r => namesE e ++ namesEs r
def namesAs : Accs → List VName
  | .nil => []
  | .cons (.idx e) r => namesE e ++ namesAs r
  | .cons (.cmp _) r => namesAs r
end

def readsS : Stmt → List VName
  | .decl _ _ dims => dims.flatMap namesE
  | .sub _ _ _ _ rhe => namesE rhe
  | .ite c => namesE c
  | .ret e => namesE e
  | .ceq l r => namesE l ++ namesE r
  | .log args => args.flatMap (fun a => match a with | .expr e => namesE e | .str => [])
  | .assert e => namesE e

/-- (variable, block, position) of the substitutions the pre-pass counts -/
def defSites (bs : List Block) : List (VName × Nat × Nat) :=
  bs.zipIdx.flatMap (fun bi => bi.1.stmts.zipIdx.filterMap (fun sk =>
    match sk.1 with
    | .sub _ v _ _ rhe => if v.version.isNone && !isUpd rhe then some (v, bi.2, sk.2) else none
    | _ => none))

def lastDef (ds : List (VName × Nat × Nat)) (v : VName) : Option (Nat × Nat) :=
  (ds.reverse.find? (fun d => d.1 == v)).map (·.2)

/-- the second half of the pre-pass (after the `fix:` for assignments that are not on every path): an unversioned variable
    read by a statement that its assignment does not precede on every path — another block that the assigning block does not
    dominate, or an earlier statement of the same block — is marked as not constant -/
def undom (bs : List Block) : List VName :=
  let ds := defSites bs
  bs.zipIdx.flatMap (fun bi => bi.1.stmts.zipIdx.flatMap (fun sj =>
    (readsS sj.1).filter (fun v =>
      match lastDef ds v with
      | some (d, k) => !(if d == bi.2 then decide (k ≤ sj.2) else bi.1.doms.contains d)
      | none => false)))

/-- the environment the loop starts from -/
def valInit (p : Int) (bs : List Block) : ValEnv :=
  { prime := p, vals := [], nonConstant := multiOf (bs.flatMap (·.stmts)) ++ undom bs }

def valLoop : Nat → ValEnv → List Block → List Block × Bool
  | 0, _, bs => (bs, false)
  | fuel + 1, env, bs =>
    let (bs', env', c) := valPass env bs
    if c then valLoop fuel env' bs' else (bs', true)

/-- the loops with the number of passes performed (the counter `passes` of the `verif` hook: the pass that finds nothing to update
    is counted as well) -/
def valLoopN : Nat → ValEnv → List Block → Nat → List Block × Bool × Nat
  | 0, _, bs, n => (bs, false, n)
  | fuel + 1, env, bs, n =>
    let (bs', env', c) := valPass env bs
    if c then valLoopN fuel env' bs' (n + 1) else (bs', true, n + 1)

def degLoopN : Nat → DegEnv → List Block → Nat → List Block × Bool × Nat
  | 0, _, bs, n => (bs, false, n)
  | fuel + 1, env, bs, n =>
    let (bs', env', c) := degPass env bs
    if c then degLoopN fuel env' bs' (n + 1) else (bs', true, n + 1)

/-- counting does not change what the loops compute, and a loop stopped by its budget has used all of it -/
theorem valLoopN_spec : ∀ (fuel : Nat) (env : ValEnv) (bs : List Block) (n : Nat),
    ((valLoopN fuel env bs n).1, (valLoopN fuel env bs n).2.1) = valLoop fuel env bs ∧
    n ≤ (valLoopN fuel env bs n).2.2 ∧ (valLoopN fuel env bs n).2.2 ≤ n + fuel ∧
    ((valLoopN fuel env bs n).2.1 = false → (valLoopN fuel env bs n).2.2 = n + fuel) := by
  intro fuel
  induction fuel with
  | zero => intro env bs n; simp [valLoopN, valLoop]
  | succ k ih =>
    intro env bs n
    rcases h : valPass env bs with ⟨bs', env', c⟩
    cases c with
    | true =>
      have e1 : valLoopN (k + 1) env bs n = valLoopN k env' bs' (n + 1) := by simp [valLoopN, h]
      have e2 : valLoop (k + 1) env bs = valLoop k env' bs' := by simp [valLoop, h]
      rw [e1, e2]
      obtain ⟨h1, h2, h3, h4⟩ := ih env' bs' (n + 1)
      exact ⟨h1, by omega, by omega, fun hf => by have := h4 hf; omega⟩
    | false =>
      have e1 : valLoopN (k + 1) env bs n = (bs', true, n + 1) := by simp [valLoopN, h]
      have e2 : valLoop (k + 1) env bs = (bs', true) := by simp [valLoop, h]
      rw [e1, e2]
      exact ⟨rfl, by simp, by simp, fun hf => by simp at hf⟩

theorem degLoopN_spec : ∀ (fuel : Nat) (env : DegEnv) (bs : List Block) (n : Nat),
    ((degLoopN fuel env bs n).1, (degLoopN fuel env bs n).2.1) = degLoop fuel env bs ∧
    n ≤ (degLoopN fuel env bs n).2.2 ∧ (degLoopN fuel env bs n).2.2 ≤ n + fuel ∧
    ((degLoopN fuel env bs n).2.1 = false → (degLoopN fuel env bs n).2.2 = n + fuel) := by
  intro fuel
  induction fuel with
  | zero => intro env bs n; simp [degLoopN, degLoop]
  | succ k ih =>
    intro env bs n
    rcases h : degPass env bs with ⟨bs', env', c⟩
    cases c with
    | true =>
      have e1 : degLoopN (k + 1) env bs n = degLoopN k env' bs' (n + 1) := by simp [degLoopN, h]
      have e2 : degLoop (k + 1) env bs = degLoop k env' bs' := by simp [degLoop, h]
      rw [e1, e2]
      obtain ⟨h1, h2, h3, h4⟩ := ih env' bs' (n + 1)
      exact ⟨h1, by omega, by omega, fun hf => by have := h4 hf; omega⟩
    | false =>
      have e1 : degLoopN (k + 1) env bs n = (bs', true, n + 1) := by simp [degLoopN, h]
      have e2 : degLoop (k + 1) env bs = (bs', true) := by simp [degLoop, h]
      rw [e1, e2]
      exact ⟨rfl, by simp, by simp, fun hf => by simp at hf⟩

end Circomspect.Propagate
