/-
C14: an executable certificate check for SSA form (`ssaLocalCheck`) and the path semantics it is
sound for.  A CFG is abstracted to what SSA is about: for every statement the versioned local it
defines (if any) and the versioned locals it reads; phi statements list their arguments as reads.

`Props/C14.lean` proves: if the local check passes, then along **every** path from the entry
(any length, any number of loop iterations) each read names the version most recently assigned on
that path.
-/
namespace Circomspect.Ssa

abbrev Var := String                -- base variable (name with its unique-renaming suffix)
abbrev VVar := Var × Nat            -- versioned variable

structure Stmt where
  isPhi : Bool
  target : Option VVar              -- the versioned local this statement assigns
  reads : List VVar                 -- versioned locals read (phi: the arguments)
  implicit : List VVar              -- arrays updated element-wise (`Update`): if the array has not been
                                    -- assigned on this path, the version read is the one "defined by its
                                    -- declaration" (first assignment to an array)
  deriving Repr, DecidableEq, Inhabited

structure Block where
  stmts : List Stmt
  preds : List Nat
  succs : List Nat
  deriving Repr, Inhabited

/-- the current version of every variable (`none`: not assigned yet) -/
abbrev VMap := Var → Option Nat

def VMap.set (m : VMap) (v : Var) (k : Nat) : VMap := fun w => if w = v then some k else m w

/-- the map in which the statement's reads are evaluated: a declared-but-unassigned array updated
    here takes the version the update names -/
def preStmt (m : VMap) (s : Stmt) : VMap :=
  s.implicit.foldl (fun m r => if m r.1 = none then m.set r.1 r.2 else m) m

def execStmt (m : VMap) (s : Stmt) : VMap :=
  match s.target with
  | some (v, k) => (preStmt m s).set v k
  | none => preStmt m s

def execStmts (m : VMap) (ss : List Stmt) : VMap := ss.foldl execStmt m

/-- parameters are version 0 on entry -/
def entryMap (params : List Var) : VMap := fun v => if params.contains v then some 0 else none

structure Cfg where
  params : List Var
  blocks : List Block
  deriving Repr

def Cfg.block (c : Cfg) (i : Nat) : Block := c.blocks.getD i default

/-- does block `b` start with a phi statement for `v`? returns its arguments -/
def phiFor (b : Block) (v : Var) : Option (List VVar) :=
  (b.stmts.find? (fun s => s.isPhi && (match s.target with | some (w, _) => w == v | none => false))).map (·.reads)

/-- A candidate certificate: the version map at the entry of every block (before its phis).
    The driver computes one in index order from the smallest predecessor (C12: every block but
    the entry has a predecessor with a smaller index); the check below does not trust it. -/
def guessIns (c : Cfg) : Nat → VMap :=
  let maps : List VMap := (List.range c.blocks.length).foldl (fun (acc : List (VMap × VMap)) i =>
    let b := c.block i
    let inM : VMap :=
      if i = 0 then entryMap c.params
      else match b.preds.filter (· < i) with
        | p :: _ => (acc.getD p (fun _ => none, fun _ => none)).2
        | [] => fun _ => none
    acc ++ [(inM, execStmts inM b.stmts)]) [] |>.map (·.1)
  fun i => maps.getD i (fun _ => none)

/-- the map at the end of block `i` according to the certificate -/
def outOf (c : Cfg) (ins : Nat → VMap) (i : Nat) : VMap := execStmts (ins i) (c.block i).stmts

/-- the reads of the non-phi statements of a block name the version current at that point -/
def readsOk : VMap → List Stmt → Bool
  | _, [] => true
  | m, s :: rest =>
    (s.isPhi || s.reads.all (fun r => preStmt m s r.1 == some r.2)) && readsOk (execStmt m s) rest

/-- phi statements form a prefix of the block; each has a target and updates no array -/
def phiPrefix (b : Block) : Bool :=
  (b.stmts.dropWhile (·.isPhi)).all (fun s => !s.isPhi) &&
  b.stmts.all (fun s => !s.isPhi || (s.implicit.isEmpty && s.target.isSome))

def mentions (c : Cfg) (vars : List Var) : Bool :=
  c.params.all (vars.contains ·) &&
  c.blocks.all (fun b => b.stmts.all (fun s =>
    (match s.target with | some t => vars.contains t.1 | none => true) && s.reads.all (fun r => vars.contains r.1) &&
    s.implicit.all (fun r => vars.contains r.1)))

/-- The local check of a certificate `ins` (it does not re-run SSA construction):
    * `vars` covers every variable mentioned; phis form a prefix of their block; the entry block has
      no predecessor and its map is the parameter map;
    * edge condition: for every edge `P → B` and variable `v`: if `B` has a phi for `v`, the version
      current at the end of `P` (if any) is among its arguments; otherwise it equals the version
      assumed at the entry of `B`;
    * reads of non-phi statements name the current version. -/
def ssaLocalCheck (c : Cfg) (vars : List Var) (ins : Nat → VMap) : Bool :=
  let n := c.blocks.length
  mentions c vars &&
  (c.block 0).preds.isEmpty &&
  vars.all (fun v => ins 0 v == entryMap c.params v) &&
  (List.range n).all (fun i =>
    let b := c.block i
    phiPrefix b &&
    b.preds.all (fun p =>
      vars.all (fun v =>
        match phiFor b v with
        | some args => (match outOf c ins p v with | some k => args.contains (v, k) | none => true)
        | none => outOf c ins p v == ins i v)) &&
    readsOk (ins i) b.stmts)

/-- further static facts of C14 -/
def allStmts (c : Cfg) : List Stmt := c.blocks.flatMap (·.stmts)

/-- every versioned local has at most one defining statement -/
def uniqueDefs (c : Cfg) : Bool :=
  let ts := (allStmts c).filterMap (·.target)
  ts.all (fun t => ts.count t == 1)

/-- phi statements stand only at the head of blocks -/
def phisAtHead (c : Cfg) : Bool :=
  c.blocks.all (fun b => (b.stmts.dropWhile (·.isPhi)).all (fun s => !s.isPhi))

end Circomspect.Ssa
