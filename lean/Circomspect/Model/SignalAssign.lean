/-
Model of `program_analysis/src/signal_assignments.rs` (C08) on the statements of a CFG,
abstracted to what the pass looks at: signal assignments (`<--`) with the assigned signal and
access and whether the assigned expression is known to be quadratic, and constraints (`===`,
`<==`) with the signals (and component ports) they read.
-/
namespace Circomspect.SignalAssign

abbrev Loc := Nat × Nat
abbrev Key := String          -- the assigned signal together with its access (canonical text)

inductive Stmt
  | assign (loc : Loc) (key : Key) (quadratic : Bool)     -- `Substitution { op: AssignSignal, .. }`
  | constraint (loc : Loc) (reads : List Key)             -- `ConstraintEquality` / `AssignConstraintSignal`
  | other
  deriving Repr, DecidableEq

inductive Kind | function | template | custom
  deriving Repr, DecidableEq

inductive Report
  | signalAssignment (loc : Loc) (key : Key) (secondaries : List Loc)     -- CS0005
  | unnecessary (loc : Loc) (key : Key)                                    -- CS0013
  deriving Repr, DecidableEq

/-- the `Assignment` records (a hash set: duplicates collapse) -/
def assignments (ss : List Stmt) : List (Loc × Key × Bool) :=
  (ss.filterMap (fun s => match s with | .assign l k q => some (l, k, q) | _ => none)).eraseDups

def constraints (ss : List Stmt) : List (Loc × List Key) :=
  (ss.filterMap (fun s => match s with | .constraint l r => some (l, r) | _ => none)).eraseDups

/-- `get_constraint_metas` -/
def constraintLocs (ss : List Stmt) (k : Key) : List Loc :=
  ((constraints ss).filter (fun c => c.2.contains k)).map (·.1)

/-- `find_signal_assignments` -/
def findSignalAssignments (kind : Kind) (ss : List Stmt) : List Report :=
  match kind with
  | .template =>
    (assignments ss).map (fun a =>
      if a.2.2 then Report.unnecessary a.1 a.2.1
      else Report.signalAssignment a.1 a.2.1 (constraintLocs ss a.2.1))
  | _ => []

end Circomspect.SignalAssign
