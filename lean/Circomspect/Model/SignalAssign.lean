/-
Model of `program_analysis/src/signal_assignments.rs` (C08) on the statements of a CFG,
abstracted to what the pass looks at: signal assignments (`<--`) with the assigned signal and
access and whether the assigned expression is known to be quadratic, and constraints (`===`,
`<==`) with the signals (and component ports) they read.
-/
namespace Circomspect.SignalAssign

abbrev Loc := Nat × Nat

/-- one step of an access: a component port, or an array index with the value constant propagation knows for it (canonical text) -/
inductive Acc
  | port (name : String)
  | idx (value : Option String)
  deriving Repr, DecidableEq

/-- a signal use: `id` identifies the signal together with its exact access (canonical text: the `Assignment` records are
    compared with it), `name` and `acc` are what the comparison of accesses looks at -/
structure Key where
  id : String
  name : String
  acc : List Acc
  deriving Repr, DecidableEq

def accAlias : Acc → Acc → Bool
  | .port a, .port b => a == b
  | .idx (some a), .idx (some b) => a == b
  | .idx _, .idx _ => true
  | _, _ => false

/-- `may_alias` (since the `fix:` 8573db1): the two accesses may denote the same signal, or one a part of the other — equal port
    names, indices identified unless both are known and different, the shorter access a prefix of the longer -/
def mayAlias : List Acc → List Acc → Bool
  | a :: as, b :: bs => accAlias a b && mayAlias as bs
  | _, _ => true

/-- a use `r` mentions the signal `k` -/
def mentions (r k : Key) : Bool := r.name == k.name && mayAlias r.acc k.acc

inductive Stmt
  | assign (loc : Loc) (key : Key) (quadratic : Bool)     -- `Substitution { op: AssignSignal, .. }`
  | constraint (loc : Loc) (reads : List Key) (target : Option Key)
      -- `ConstraintEquality` (no target) / `AssignConstraintSignal` (the assigned signal or component input)
  | other
  deriving Repr, DecidableEq

inductive Kind | function | template | custom
  deriving Repr, DecidableEq

inductive Report
  | signalAssignment (loc : Loc) (key : Key) (secondaries : List Loc)     -- CS0005
  | unnecessary (loc : Loc) (key : Key)                                    -- CS0013
  deriving Repr, DecidableEq

/-- the `Assignment` records (a hash set: duplicates collapse) -/
def assignments (ss : List Stmt) : List (Loc × Key × Bool) :=
  (ss.filterMap (fun s => match s with | .assign l k q => some (l, k, q) | _ => none)).eraseDups

/-- the `Constraint` records: location and the uses looked at (the reads, and the target of a `<==`) -/
def constraints (ss : List Stmt) : List (Loc × List Key) :=
  (ss.filterMap (fun s => match s with | .constraint l r t => some (l, r ++ t.toList) | _ => none)).eraseDups

/-- `get_constraint_metas` -/
def constraintLocs (ss : List Stmt) (k : Key) : List Loc :=
  ((constraints ss).filter (fun c => c.2.any (fun r => mentions r k))).map (·.1)

/-- `find_signal_assignments` -/
def findSignalAssignments (kind : Kind) (ss : List Stmt) : List Report :=
  match kind with
  | .template =>
    (assignments ss).map (fun a =>
      if a.2.2 then Report.unnecessary a.1 a.2.1
      else Report.signalAssignment a.1 a.2.1 (constraintLocs ss a.2.1))
  | _ => []

end Circomspect.SignalAssign
