/-
Model of `parser_logic::preprocess` (the comment stripper; C05, C04), arm for arm.

The Rust loop `while let Some(c0) = it.next()` over `expr.chars().peekable()` becomes a
recursion over the remaining characters; `state`, `loc` (byte offset of the next unread
character), `block_start` and the output `pp` are threaded explicitly.  The result is the
blanked text, or the byte offset stored in the `UnclosedCommentError`.
-/
namespace Circomspect.Strip

/-- `for _ in 0..c.len_utf8() { pp.push(' ') }` -/
def blanks (c : Char) : List Char := List.replicate c.utf8Size ' '

def run : Nat → Nat → Nat → List Char → List Char → Except Nat (List Char)
  | state, _, bs, pp, [] => if state = 2 then .error bs else .ok pp
  | state, loc, bs, pp, c0 :: rest =>
    let loc := loc + c0.utf8Size
    if state = 0 then
      if c0 = '/' then
        match rest with
        | [] => .ok (pp ++ [c0])                        -- `break`, state is still 0
        | c1 :: rest' =>
          if c1 = '/' then run 1 (loc + 1) bs (pp ++ [' ', ' ']) rest'
          else if c1 = '*' then run 2 (loc + 1) (loc + 1 - 2) (pp ++ [' ', ' ']) rest'
          else run 0 (loc + c1.utf8Size) bs (pp ++ [c0, c1]) rest'
      else run 0 loc bs (pp ++ [c0]) rest
    else if state = 1 ∧ c0 = '\n' then run 0 loc bs (pp ++ [c0]) rest
    else if state = 2 ∧ c0 = '*' then
      match rest with
      | c1 :: rest' =>
        if c1 = '/' then run 0 (loc + 1) bs (pp ++ [' ', ' ']) rest'
        else run 2 loc bs (pp ++ [' ']) (c1 :: rest')
      | [] => run 2 loc bs (pp ++ [' ']) []
    else run state loc bs (pp ++ blanks c0) rest
termination_by _ _ _ _ l => l.length

/-- `preprocess(expr, _)` -/
def preprocess (s : List Char) : Except Nat (List Char) := run 0 0 0 [] s

end Circomspect.Strip
