/-
Model of `control_flow_graph/lifting.rs` — `visit_statement` and `complete_basic_block` —
on statement *skeletons* (C12, C13): a non-control statement is an opaque `simple` carrying
its source range; what matters for the shape of the CFG is the nesting of blocks, `if` and
`while` (a `for` loop and compound assignments are already expanded by the parser).
-/
namespace Circomspect.CfgLift

abbrev Loc := Nat × Nat

-- AST statement skeleton (statement lists are a mutual inductive so that the model below is
-- plainly structurally recursive)
mutual
inductive Stmt
  | simple (loc : Loc)
  | init (children : Stmts)                -- `InitializationBlock`
  | block (children : Stmts)
  | ite (loc : Loc) (thn : Stmt)           -- `IfThenElse` without else-case
  | iteElse (loc : Loc) (thn els : Stmt)
  | while (loc : Loc) (body : Stmt)
inductive Stmts
  | nil
  | cons (s : Stmt) (rest : Stmts)
end

instance : Inhabited Stmt := ⟨.simple (0, 0)⟩

def Stmts.ofList : List Stmt → Stmts
  | [] => .nil
  | s :: rest => .cons s (Stmts.ofList rest)

/-- IR statement skeleton -/
inductive IStmt
  | simple (loc : Loc)
  | branch (loc : Loc) (trueIdx : Nat) (falseIdx : Option Nat)
  deriving Repr, DecidableEq, Inhabited

structure Block where
  depth : Nat
  stmts : List IStmt
  preds : List Nat       -- kept sorted and duplicate free (a `HashSet` in the Rust code)
  succs : List Nat
  deriving Repr, DecidableEq, Inhabited

def insertSorted (x : Nat) : List Nat → List Nat
  | [] => [x]
  | y :: ys => if x < y then x :: y :: ys else if x = y then y :: ys else y :: insertSorted x ys

def modify (bs : List Block) (i : Nat) (f : Block → Block) : List Block :=
  bs.mapIdx (fun k b => if k = i then f b else b)

/-- `basic_blocks.last_mut().append_statement(..)` -/
def appendStmt (bs : List Block) (s : IStmt) : List Block :=
  modify bs (bs.length - 1) (fun b => { b with stmts := b.stmts ++ [s] })

/-- the false-branch patch of `complete_basic_block` on block `i` for new block `j` -/
def patchFalse (b : Block) (j : Nat) : Block :=
  match b.stmts.getLast? with
  | some (.branch loc t none) => if j != t then { b with stmts := b.stmts.dropLast ++ [.branch loc t (some j)] } else b
  | _ => b

def union (a b : List Nat) : List Nat := a.foldl (fun acc x => insertSorted x acc) b

/-- `complete_basic_block`: push block `j = len` with predecessors `preds`; every `i ∈ preds`
    gets successor `j` and, if it ends in a branch whose false target is still open and `j` is not
    its true target, that false target becomes `j`. (`preds` is a set: order is irrelevant.) -/
def completeBlock (bs : List Block) (preds : List Nat) (depth : Nat) : List Block :=
  let j := bs.length
  (bs.mapIdx (fun k b => if preds.contains k then patchFalse { b with succs := insertSorted j b.succs } j else b))
    ++ [{ depth := depth, stmts := [], preds := union preds [], succs := [] }]

/-- the back edges added by the `While` arm: every `i ∈ froms` gets successor `header`, and
    `header` gets them as predecessors -/
def addEdges (bs : List Block) (froms : List Nat) (header : Nat) : List Block :=
  bs.mapIdx (fun k b =>
    let b := if froms.contains k then { b with succs := insertSorted header b.succs } else b
    if k = header then { b with preds := union froms b.preds } else b)

inductive Out
  | ok (bs : List Block) (preds : List Nat)
  | panic (site : String)
  deriving Repr

/-- sequencing: continue with the blocks and predecessor set unless a panic occurred -/
def Out.andThen (o : Out) (f : List Block → List Nat → Out) : Out :=
  match o with
  | .ok bs ps => f bs ps
  | .panic s => .panic s

/-- "if the returned set is empty, the last block of the body completes the block" -/
def orLast (ps : List Nat) (bs : List Block) : List Nat := if ps.isEmpty then [bs.length - 1] else ps

/-- the blocks before the body of a `While` is visited: loop header (with the branch) and the
    first body block -/
def whilePre (loc : Loc) (d : Nat) (bs : List Block) : List Block :=
  let cur := bs.length - 1
  let bs := completeBlock bs [cur] d
  let bs := appendStmt bs (.branch loc (cur + 2) none)
  completeBlock bs [cur + 1] (d + 1)

/-- the blocks before the if-case of an `IfThenElse` is visited -/
def itePre (loc : Loc) (d : Nat) (bs : List Block) : List Block :=
  let cur := bs.length - 1
  completeBlock (appendStmt bs (.branch loc (cur + 1) none)) [cur] d

mutual
/-- `visit_statement`; returns the blocks and the predecessor set of the next block -/
def visit : Stmt → Nat → List Block → Out
  | .simple loc, _, bs => .ok (appendStmt bs (.simple loc)) []
  | .init children, d, bs => visitInit children d bs
  | .block children, d, bs => visitBlock children d bs []
  | .while loc body, d, bs =>
    (visit body (d + 1) (whilePre loc d bs)).andThen fun bs' ps =>
      .ok (addEdges bs' (orLast ps bs') (bs.length - 1 + 1)) [bs.length - 1 + 1]
  | .ite loc thn, d, bs =>
    (visit thn d (itePre loc d bs)).andThen fun bs1 ifPs =>
      .ok bs1 (insertSorted (bs.length - 1) (orLast ifPs bs1))
  | .iteElse loc thn els, d, bs =>
    (visit thn d (itePre loc d bs)).andThen fun bs1 ifPs =>
      (visit els d (completeBlock bs1 [bs.length - 1] d)).andThen fun bs2 elPs =>
        .ok bs2 (union (orLast ifPs bs1) (orLast elPs bs2))
/-- the `for stmt in stmts` loop of the `Block` arm -/
def visitBlock : Stmts → Nat → List Block → List Nat → Out
  | .nil, _, bs, ps => .ok bs ps
  | .cons s rest, d, bs, ps =>
    (visit s d (if ps.isEmpty then bs else completeBlock bs ps d)).andThen fun bs' ps' =>
      visitBlock rest d bs' ps'
/-- the loop of the `InitializationBlock` arm (`assert!(.. .is_empty())`) -/
def visitInit : Stmts → Nat → List Block → Out
  | .nil, _, bs => .ok bs []
  | .cons s rest, d, bs =>
    (visit s d bs).andThen fun bs' ps =>
      if ps.isEmpty then visitInit rest d bs' else .panic "assert!(visit_statement(..).is_empty())"
end

/-- `build_basic_blocks` -/
def lift (body : Stmt) : Out :=
  visit body 0 [{ depth := 0, stmts := [], preds := [], succs := [] }]

/-- `edges` of `run_complexity_analysis` (`definition_complexity.rs`): the sum of the sizes of the successor sets -/
def edges (bs : List Block) : Nat := (bs.map (fun b => b.succs.length)).sum

/-- `2 + edges - nodes`, with the truncated subtraction of `Nat` (the Rust code panics in a debug build, and wraps in a release
    build, where this truncates); `C12_complexity_defined`: on a lifted CFG nothing is truncated -/
def complexity (bs : List Block) : Nat := 2 + edges bs - bs.length

/-- `MAX_CYCLOMATIC_COMPLEXITY` -/
def tooComplex (bs : List Block) : Bool := decide (20 < complexity bs)

end Circomspect.CfgLift
