/-
Model of `control_flow_graph/unique_vars.rs` (C10) on the *event sequence* of a definition body:
the order in which `visit_statement`/`visit_expression` meet block entries and exits,
declarations and variable occurrences.  (`Driver` flattens the AST dump into this sequence in
the traversal order of the Rust code: a declaration's dimension expressions before the
declaration itself; for a substitution the assigned name, then its indices, then the right-hand
side; only `Block` opens a scope.)

Also the specification: plain lexical resolution (`Spec.*`), written independently.
-/
namespace Circomspect.UniqueVars

inductive Event
  | enter                     -- `add_variable_block`
  | exit                      -- `remove_variable_block`
  | decl (name : String)      -- a `Declaration`
  | use (name : String)       -- any other occurrence of a variable name
  deriving Repr, DecidableEq

abbrev Scope (α : Type) := List (String × α)

def lookup {α : Type} (stack : List (Scope α)) (n : String) : Option α :=
  match stack with
  | [] => none
  | sc :: rest =>
    match sc.find? (fun e => e.1 == n) with
    | some e => some e.2
    | none => lookup rest n

def push {α : Type} (stack : List (Scope α)) (n : String) (a : α) : List (Scope α) :=
  match stack with
  | [] => [[(n, a)]]            -- cannot happen: the environment always has a block
  | sc :: rest => ((n, a) :: sc) :: rest

/-- `DeclarationEnvironment` -/
structure Env where
  decls : List (Scope Nat)                 -- `declarations`: last seen declaration of each name (scoped): its id
  vers : List (Scope Nat)                  -- `scoped_versions`: current version of each name (scoped)
  globals : List (String × Option Nat)     -- `global_versions`: maximum version seen of each name (not scoped)
  next : Nat                               -- number of declarations/occurrences met so far (their ids)
  deriving Repr

def Env.init : Env := { decls := [[]], vers := [[]], globals := [], next := 0 }

def globalLookup (g : List (String × Option Nat)) (n : String) : Option (Option Nat) :=
  (g.find? (fun e => e.1 == n)).map (·.2)

/-- `get_next_version` -/
def nextVersion (env : Env) (n : String) : Option Nat × Env :=
  let v : Option Nat := match globalLookup env.globals n with
    | none => none
    | some none => some 0
    | some (some k) => some (k + 1)
  let env := { env with globals := (n, v) :: env.globals }
  match v with
  | none => (none, env)
  | some k => (some k, { env with vers := push env.vers n k })

/-- what the renamer outputs for an event: the renamed key `(name, suffix)`, and for a
    declaration the id of the declaration it shadows (the CS0001 report) -/
structure Out where
  id : Nat
  isDecl : Bool
  name : String
  suffix : Option Nat
  shadows : Option Nat
  deriving Repr, DecidableEq

def step (env : Env) : Event → Env × Option Out
  | .enter => ({ env with decls := [] :: env.decls, vers := [] :: env.vers }, none)
  | .exit => ({ env with decls := env.decls.tail, vers := env.vers.tail }, none)
  | .decl n =>
    let id := env.next
    let shadowed := lookup env.decls n                                         -- `env.get_declaration(name)`
    let env := { env with decls := push env.decls n id, next := id + 1 }       -- `declarations.add_variable`
    let r := nextVersion env n
    (r.2, some { id := id, isDecl := true, name := n, suffix := r.1, shadows := shadowed })
  | .use n =>
    ({ env with next := env.next + 1 },
     some { id := env.next, isDecl := false, name := n, suffix := lookup env.vers n, shadows := none })

def run : Env → List Event → List Out
  | _, [] => []
  | env, e :: rest =>
    match step env e with
    | (env', some o) => o :: run env' rest
    | (env', none) => run env' rest

/-- parameters are declared first, in the outermost block (`TryFrom<&Parameters>`); a repeated
    parameter name is the `ParameterNameCollisionError` -/
def paramEvents (params : List String) : List Event := params.map Event.decl

def paramCollision (params : List String) : Bool :=
  (run Env.init (paramEvents params)).any (fun o => o.suffix.isSome)

def rename (params : List String) (body : List Event) : List Out :=
  run Env.init (paramEvents params ++ body)

end Circomspect.UniqueVars

namespace Circomspect.ScopeSpec
open Circomspect.UniqueVars

/-- Lexical resolution with consistent naming *by construction*: the scope stack maps a name to
    the innermost enclosing declaration that precedes the occurrence (parameters outermost),
    recorded with the suffix that declaration was given; the first declaration of a name keeps
    the plain name, later ones get the suffixes `0, 1, 2, …`; an occurrence is printed with the
    suffix of the declaration it resolves to. -/
structure St where
  stack : List (Scope (Nat × Option Nat))      -- name ↦ (declaration id, its suffix)
  counts : List (String × Option Nat)          -- per name: the last suffix handed out
  next : Nat

def St.init : St := { stack := [[]], counts := [], next := 0 }

def freshSuffix (counts : List (String × Option Nat)) (n : String) : Option Nat :=
  match globalLookup counts n with
  | none => none
  | some none => some 0
  | some (some k) => some (k + 1)

def specStep (s : St) : Event → St × Option Out
  | .enter => ({ s with stack := [] :: s.stack }, none)
  | .exit => ({ s with stack := s.stack.tail }, none)
  | .decl n =>
    let v := freshSuffix s.counts n
    ({ stack := push s.stack n (s.next, v), counts := (n, v) :: s.counts, next := s.next + 1 },
     some { id := s.next, isDecl := true, name := n, suffix := v, shadows := (lookup s.stack n).map (·.1) })
  | .use n =>
    ({ s with next := s.next + 1 },
     some { id := s.next, isDecl := false, name := n, suffix := (lookup s.stack n).bind (·.2), shadows := none })

def specRun : St → List Event → List Out
  | _, [] => []
  | s, e :: rest =>
    match specStep s e with
    | (s', some o) => o :: specRun s' rest
    | (s', none) => specRun s' rest

/-- for every declaration/occurrence (by id): the id of the declaration it refers to -/
def resolve : St → List Event → List (Nat × Option Nat)
  | _, [] => []
  | s, e :: rest =>
    let r := specStep s e
    match e with
    | .decl _ => (s.next, some s.next) :: resolve r.1 rest
    | .use n => (s.next, (lookup s.stack n).map (·.1)) :: resolve r.1 rest
    | _ => resolve r.1 rest

/-- the declarations that redeclare a visible name, with the declaration they shadow -/
def shadowing (s : St) (evs : List Event) : List (Nat × Nat) :=
  (specRun s evs).filterMap (fun o => o.shadows.map (fun d => (o.id, d)))

end Circomspect.ScopeSpec
