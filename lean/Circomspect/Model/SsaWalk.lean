/-
Operational model of phase 2 of the SSA construction, `insert_ssa_variables` (C14): the walk over the dominator
tree in pre-order (children in index order, `static_single_assignment/mod.rs`), with the environment of
`control_flow_graph/ssa_impl.rs`:

* `global_versions`: one counter per variable, never scoped — `get_next_version` hands out `0` the first time and
  the last number plus one afterwards (`fresh`, `alloc`);
* `scoped_versions`: the current version of each variable; a scope is opened before a child of the dominator tree
  is visited and closed afterwards, so every child starts from the environment at the end of its parent — the
  model hands that map (`m`) down to the children;
* `update_phi_statements`: at the end of a block, every phi statement of every successor gets the current version
  of its variable as an argument unless an argument with that version is already there (`pushArg`).

`SsaBuild.build` describes the same conversion declaratively, with the numbering as a parameter;
`Lemmas/SsaWalkLemmas.lean` proves that the walk refines it (with the numbering the counters produce) and that the
counters never hand out the same version of a variable twice.
-/
import Circomspect.Model.SsaBuild

namespace Circomspect.SsaWalk
open Circomspect.Ssa Circomspect.SsaBuild

/-- the places where `get_next_version` is called -/
inductive Site where
  | param (v : Var)
  | phi (i : Nat) (v : Var)
  | def_ (i k : Nat)
  | imp (i k : Nat)
  deriving DecidableEq, Repr

structure Entry where
  site : Site
  var : Var
  ver : Nat
  deriving Repr

/-- the state threaded through the walk -/
structure St where
  glob : VMap                          -- `global_versions`
  log : List Entry                     -- every version handed out, in order
  done : List (Nat × List Stmt)        -- the converted non-phi statements of the blocks visited, in order
  args : Nat → Var → List VVar         -- the arguments pushed to the phi statement for a variable in a block

inductive Res (α : Type) where
  | ok (a : α)
  | undef                              -- `UndefinedVariableError`
  | fuel

def fresh (g : VMap) (v : Var) : Nat :=
  match g v with
  | none => 0
  | some k => k + 1

/-- `get_next_version` (the scoped map is updated by the caller) -/
def alloc (st : St) (site : Site) (v : Var) : St :=
  { st with glob := st.glob.set v (fresh st.glob v), log := st.log ++ [⟨site, v, fresh st.glob v⟩] }

/-- the array read of an element-wise update `v[..] = e`: the current version or, if there is none, a new one -/
def impStep (i k : Nat) (st : St) (m : VMap) (s : PStmt) : St × VMap × List VVar :=
  match s.upd, s.target with
  | true, some v =>
    (match m v with
     | some n => (st, m, [(v, n)])
     | none => (alloc st (.imp i k) v, m.set v (fresh st.glob v), [(v, fresh st.glob v)]))
  | _, _ => (st, m, [])

/-- `insert_ssa_variables` on one statement -/
def walkStmt (i k : Nat) (st : St) (m : VMap) (s : PStmt) : Option (St × VMap × Stmt) :=
  match optAll (s.reads.map (fun r => (m r).map (fun n => (r, n)))) with
  | none => none
  | some rs =>
    let r := impStep i k st m s
    match s.target with
    | some v =>
      some (alloc r.1 (.def_ i k) v, r.2.1.set v (fresh r.1.glob v),
        { isPhi := false, target := some (v, fresh r.1.glob v), reads := r.2.2 ++ rs, implicit := r.2.2 })
    | none => some (r.1, r.2.1, { isPhi := false, target := none, reads := r.2.2 ++ rs, implicit := r.2.2 })

def walkStmts (i : Nat) : Nat → St → VMap → List PStmt → Option (St × VMap × List Stmt)
  | _, st, m, [] => some (st, m, [])
  | k, st, m, s :: rest =>
    match walkStmt i k st m s with
    | none => none
    | some r =>
      match walkStmts i (k + 1) r.1 r.2.1 rest with
      | none => none
      | some r' => some (r'.1, r'.2.1, r.2.2 :: r'.2.2)

/-- the phi statements at the head of block `i`: each is a substitution whose target gets the next version -/
def walkPhis (i : Nat) : St → VMap → List Var → St × VMap
  | st, m, [] => (st, m)
  | st, m, v :: rest => walkPhis i (alloc st (.phi i v) v) (m.set v (fresh st.glob v)) rest

/-- `ensure_phi_argument` -/
def pushArg (m : VMap) (args : List VVar) (v : Var) : List VVar :=
  match m v with
  | none => args
  | some n => if args.any (fun a => a.2 == n) then args else args ++ [(v, n)]

/-- `update_phi_statements` on every successor -/
def pushSuccs (succs : List Nat) (m : VMap) (args : Nat → Var → List VVar) : Nat → Var → List VVar :=
  fun s v => if succs.contains s then pushArg m (args s v) v else args s v

/-- the children of `i` in the dominator tree, in index order -/
def kidsOf (n : Nat) (idom : Nat → Nat) (i : Nat) : List Nat :=
  (List.range n).filter (fun j => decide (0 < j) && idom j == i)

def foldRes (f : St → Nat → Res St) : List Nat → St → Res St
  | [], st => .ok st
  | j :: rest, st =>
    match f st j with
    | .ok st' => foldRes f rest st'
    | .undef => .undef
    | .fuel => .fuel

/-- `insert_ssa_variables_impl` -/
def walk (c : PCfg) (P : Phis) (idom : Nat → Nat) : Nat → Nat → VMap → St → Res St
  | 0, _, _, _ => .fuel
  | fuel + 1, i, m, st =>
    let r1 := walkPhis i st m (P i)
    match walkStmts i 0 r1.1 r1.2 (c.block i).stmts with
    | none => .undef
    | some r2 =>
      let st3 : St := { r2.1 with done := r2.1.done ++ [(i, r2.2.2)], args := pushSuccs (c.block i).succs r2.2.1 r2.1.args }
      foldRes (fun st j => walk c P idom fuel j r2.2.1 st) (kidsOf c.blocks.length idom i) st3

/-- `Environment::new`: every parameter gets its first version -/
def initParams : St → VMap → List Var → St × VMap
  | st, m, [] => (st, m)
  | st, m, v :: rest => initParams (alloc st (.param v) v) (m.set v (fresh st.glob v)) rest

def st0 : St := { glob := fun _ => none, log := [], done := [], args := fun _ _ => [] }

/-- the version the counters gave to a site -/
def verOf (log : List Entry) (s : Site) : Nat :=
  match log.find? (fun e => e.site == s) with
  | some e => e.ver
  | none => 0

def toV (log : List Entry) : Versions :=
  { phi := fun i v => verOf log (.phi i v), def_ := fun i k => verOf log (.def_ i k), imp := fun i k => verOf log (.imp i k) }

def lookupDone : List (Nat × List Stmt) → Nat → Option (List Stmt)
  | [], _ => none
  | (j, ss) :: rest, i => if j = i then some ss else lookupDone rest i

def cfgOf (c : PCfg) (P : Phis) (st : St) : Option Cfg :=
  match optAll ((List.range c.blocks.length).map (fun i =>
      (lookupDone st.done i).map (fun ss =>
        ({ stmts := (P i).map (fun v => { isPhi := true, target := some (v, verOf st.log (.phi i v)), reads := st.args i v, implicit := [] }) ++ ss,
           preds := (c.block i).preds, succs := (c.block i).succs } : Block)))) with
  | none => none
  | some bs => some { params := c.params, blocks := bs }

/-- the conversion: the final state of the walk (`.undef`: a local is read that has no version) -/
def run (c : PCfg) (P : Phis) (idom : Nat → Nat) : Res St :=
  let r0 := initParams st0 (fun _ => none) c.params
  walk c P idom (c.blocks.length + 1) 0 r0.2 r0.1

-- ---------------------------------------------------------------------------- the stack behind `scoped_versions`

/-- `VarEnvironment<Version>`: a stack of blocks of (name, version) pairs, innermost first; `get_variable` searches from the
    innermost block outwards, `add_variable` writes into the innermost block -/
abbrev Frames := List (List (Var × Nat))

def Frames.get : Frames → Var → Option Nat
  | [], _ => none
  | f :: rest, v =>
    match f.find? (fun p => p.1 == v) with
    | some p => some p.2
    | none => Frames.get rest v

def Frames.add : Frames → Var → Nat → Frames
  | [], _, _ => []                                   -- `assert!(!self.variables.is_empty())`
  | f :: rest, v, n => ((v, n) :: f) :: rest

def Frames.push (fs : Frames) : Frames := [] :: fs    -- `add_variable_scope`
def Frames.pop (fs : Frames) : Frames := fs.tail      -- `remove_variable_scope`

/-- what the walk does to the stack while it visits a subtree: additions, and scopes around the visits of children -/
inductive ScopeOps : (Frames → Frames) → Prop
  | none : ScopeOps id
  | add (v : Var) (n : Nat) {f : Frames → Frames} : ScopeOps f → ScopeOps (fun fs => f (fs.add v n))
  | child {f g : Frames → Frames} : ScopeOps f → ScopeOps g → ScopeOps (fun fs => g ((f fs.push).pop))

end Circomspect.SsaWalk
