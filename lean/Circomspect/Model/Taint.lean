/-
Model of `program_analysis/src/{taint_analysis, constraint_analysis, side_effect_analysis}.rs` over
the facts those passes read off the SSA CFG, and of the machine on which "replacing the value
changes nothing" is stated.

A variable is an SSA name (a number).  A `Fact` is what one IR statement contributes:

* `assign w rs phi`       — `Substitution`: writes `w`, reads `rs` (`variables_read`, which contains
                            the previous version of an updated array and the indices)
* `decl names rs`         — `Declaration` of `names` with dimension expressions reading `rs`
* `branch rs const region`— `IfThenElse`: condition reads `rs`, `const` = the condition has a known
                            value, `region` = variables written in the true/false branch regions
* `observe rs`            — `Return` / `Assert`
* `constraint us reads`   — `===`, and the constraint half of `<==` (`us` = `variables_used`)
* `other rs`              — `LogCall`
-/
namespace Circomspect.Taint

abbrev V := Nat

inductive Fact
  | assign (w : V) (rs : List V) (phi : Bool)
  | decl (names rs : List V)
  | branch (rs : List V) (const : Bool) (region : List V)
  | observe (rs : List V)
  | constraint (us reads : List V)
  | other (rs : List V)
  deriving Repr, Inhabited, DecidableEq

/-! ### taint and constraint steps -/

def edgesOf : Fact → List (V × V)
  | .assign w rs _ => rs.map (fun r => (r, w))
  | .decl names rs => names.flatMap (fun n => rs.map (fun r => (r, n)))
  | .branch rs const region => if const then [] else region.flatMap (fun w => rs.map (fun r => (r, w)))
  | _ => []

def edges (fs : List Fact) : List (V × V) := fs.flatMap edgesOf

def consOf : Fact → List (V × V)
  | .constraint us _ => us.flatMap (fun a => (us.filter (fun b => a != b)).map (fun b => (a, b)))
  | _ => []

def consEdges (fs : List Fact) : List (V × V) := fs.flatMap consOf

def succs (es : List (V × V)) (x : V) : List V := (es.filter (fun e => e.1 == x)).map (·.2)

def subset (a b : List V) : Bool := a.all (fun x => b.contains x)

/-- the closure loop of `multi_step_taint` / `multi_step_constraint` as it was before the repairs 7abcad3: `while
    !update.is_subset(&result)`, every round re-expands the whole frontier (kept for `closure_repair_same`) -/
def closeLoop (es : List (V × V)) : Nat → List V → List V → Option (List V)
  | 0, _, _ => none
  | k + 1, update, result =>
    if subset update result then some result
    else closeLoop es k (update.flatMap (succs es)) (result ++ update)

/-- the closure loop as it is now: a work list; a variable is expanded when it is inserted into the result for the first time,
    and only the successors that are not in the result yet are pushed (`while let Some(source) = work_list.pop() { if
    result.insert(..) { work_list.extend(sinks.filter(|s| !result.contains(s))) } }`). The real containers are hash sets, so
    the order in which successors are pushed is not fixed; no theorem depends on it. `none`: the iteration budget ran out -/
def workLoop (es : List (V × V)) : Nat → List V → List V → Option (List V)
  | 0, _, _ => none
  | _ + 1, [], result => some result
  | k + 1, x :: work, result =>
    if result.contains x then workLoop es k work result
    else workLoop es k ((succs es x).filter (fun s => !(x :: result).contains s) ++ work) (x :: result)

/-- `multi_step_taint`: zero or more steps -/
def multiStepTaint (es : List (V × V)) (fuel : Nat) (x : V) : Option (List V) := workLoop es fuel [x] []

/-- `multi_step_constraint`: one or more steps -/
def multiStepCons (es : List (V × V)) (fuel : Nat) (x : V) : Option (List V) := workLoop es fuel (succs es x) []

/-- an iteration budget that the work list never exhausts (`workLoop_terminates`): every iteration pops one entry, and
    entries are pushed only when a variable is expanded, at most once per edge -/
def closureFuel (es : List (V × V)) (start : Nat) : Nat := es.length + start + 1

/-! ### side-effect analysis -/

def readsOf : Fact → List V
  | .assign _ rs _ => rs
  | .decl _ rs => rs
  | .branch rs _ _ => rs
  | .observe rs => rs
  | .constraint _ reads => reads
  | .other rs => rs

def readSet (fs : List Fact) : List V := fs.flatMap readsOf

/-- well-formedness of the facts: the variables of a constraint are read by some statement -/
def consWfB (fs : List Fact) : Bool :=
  fs.all (fun f => match f with
    | .constraint us _ => us.all (fun u => (readSet fs).contains u)
    | _ => true)

def sinkReadsOf : Fact → List V
  | .decl _ rs => rs
  | .branch rs _ _ => rs
  | .observe rs => rs
  | _ => []

def definitionsOf : Fact → List V
  | .assign w _ false => [w]
  | _ => []

structure Def where
  facts : List Fact
  params : List V
  exported : List V        -- input and output signals
  underscore : List V      -- names printed as `_`
  fuel : Nat
  deriving Repr, Inhabited

def Def.definitions (d : Def) : List V := d.params ++ d.facts.flatMap definitionsOf

def optBind {α β : Type} (l : List α) (f : α → Option (List β)) : Option (List β) :=
  l.foldr (fun a acc => match f a, acc with
    | some x, some r => some (x ++ r)
    | _, _ => none) (some [])

/-- the variables that occur in some constraint (`ConstraintAnalysis::is_constrained`, after the `fix:`: also a variable that is
    the only one of its constraint) -/
def consVars (fs : List Fact) : List V :=
  fs.flatMap (fun f => match f with | .constraint us _ => us | _ => [])

/-- the sink set of `run_side_effect_analysis` -/
def Def.sinks (d : Def) : Option (List V) :=
  let es := edges d.facts
  let cs := consEdges d.facts
  match optBind d.exported (multiStepTaint es d.fuel) with
  | none => none
  | some b =>
    match optBind b (fun s => match multiStepCons cs d.fuel s with
        | none => none
        | some r => some (if (consVars d.facts).contains s then s :: r else r)) with
    | none => none
    | some c => some (c ++ d.exported ++ d.facts.flatMap sinkReadsOf)

inductive Claim | unread | noSideEffect
  deriving Repr, DecidableEq

/-- the report (if any) for one definition -/
def Def.classify (d : Def) (x : V) : Option (Option Claim) :=
  if d.underscore.contains x then some none
  else if !(readSet d.facts).contains x then
    some (if d.exported.contains x then none else some .unread)
  else
    match d.sinks, multiStepTaint (edges d.facts) d.fuel x with
    | some sinks, some t => some (if t.any (fun y => sinks.contains y) then none else some .noSideEffect)
    | _, _ => none

/-! ### the machine -/

inductive Instr (Val : Type)
  | assign (w : V) (rs : List V) (phi : Bool) (f : List Val → Val)
  | decl (names rs : List V)
  | branch (rs : List V) (const : Bool) (region : List V) (g : List Val → Bool) (t e : Nat)
  | observe (rs : List V)
  | constraint (us reads : List V)
  | other (rs : List V)

def Instr.fact {Val : Type} : Instr Val → Fact
  | .assign w rs phi _ => .assign w rs phi
  | .decl names rs => .decl names rs
  | .branch rs c region _ _ _ => .branch rs c region
  | .observe rs => .observe rs
  | .constraint us reads => .constraint us reads
  | .other rs => .other rs

structure Block (Val : Type) where
  instrs : List (Instr Val)
  next : Option Nat

abbrev Prog (Val : Type) := List (Block Val)

def Prog.facts {Val : Type} (p : Prog Val) : List Fact := p.flatMap (fun b => b.instrs.map Instr.fact)

/-- what the property counts as an effect -/
inductive Event (Val : Type)
  | wr (w : V) (v : Val)           -- value assigned to an input or output signal
  | cs (vs : List Val)             -- a constraint mentioning such a signal (in its text or through the symbolic value of a local)
  | obs (vs : List Val)            -- assertion / return value
  | dim (vs : List Val)            -- array dimensions
  | br (b : Bool)                  -- branch decision

structure State (Val : Type) where
  blk : Nat
  idx : Nat
  env : V → Val
  trace : List (Event Val)
  halted : Bool

def vals {Val : Type} (env : V → Val) (rs : List V) : List Val := rs.map env

def step {Val : Type} (exported mention : List V) (p : Prog Val) (s : State Val) : State Val :=
  if s.halted then s else
  match p[s.blk]? with
  | none => { s with halted := true }
  | some b =>
    match b.instrs[s.idx]? with
    | none =>
      match b.next with
      | none => { s with halted := true }
      | some n => { s with blk := n, idx := 0 }
    | some i =>
      match i with
      | .assign w rs _ f =>
        let v := f (vals s.env rs)
        { s with idx := s.idx + 1, env := fun y => if y = w then v else s.env y,
                 trace := if exported.contains w then s.trace ++ [.wr w v] else s.trace }
      | .decl _ rs => { s with idx := s.idx + 1, trace := s.trace ++ [.dim (vals s.env rs)] }
      | .branch rs _ _ g t e =>
        let c := g (vals s.env rs)
        { s with blk := if c then t else e, idx := 0, trace := s.trace ++ [.br c] }
      | .observe rs => { s with idx := s.idx + 1, trace := s.trace ++ [.obs (vals s.env rs)] }
      | .constraint us _ =>
        { s with idx := s.idx + 1,
                 trace := if us.any (fun u => mention.contains u) then s.trace ++ [.cs (vals s.env us)] else s.trace }
      | .other _ => { s with idx := s.idx + 1 }

def run {Val : Type} (exported mention : List V) (p : Prog Val) : Nat → State Val → State Val
  | 0, s => s
  | k + 1, s => run exported mention p k (step exported mention p s)

end Circomspect.Taint
