/-
Model of the include work list of `parser/src/include_logic.rs` (`FileStack`) and of the
`parse_files` loop of `parser/src/lib.rs:39-67`, over an abstract file system.

Files are canonical paths, represented by numbers `0 .. n-1` (what `fs::canonicalize` returns —
two spellings, a `..` detour or a symlink to the same file are the same number).  An include
statement is what `add_include`/`include_library` look at:

* `rel`  — the result of canonicalising `dir(including file)/path` (`none`: does not exist),
* `dot`  — the written path starts with `.` (no longer consulted: directory libraries are searched for every written path),
* `sep`  — the written path contains a path separator (file libraries skip those),
* `key`  — the written path itself, as an identifier compared against library entries.

A library is a directory (the table of written paths that exist below it, with their canonical
targets) or a single `.circom` file (canonical target and the file name it was given on the command line).
-/
import Circomspect.Model.CfgReach

namespace Circomspect.Includes

abbrev File := Nat

structure Inc where
  rel : Option File
  dot : Bool
  sep : Bool
  key : Nat
  deriving Repr, DecidableEq, Inhabited

inductive Lib
  | dir (entries : List (Nat × File))
  | file (target : File) (name : Nat)
  deriving Repr, Inhabited

/-- what is known of a canonical file: `ok = false` when it cannot be read (a directory) or does
    not parse — then no include of it is followed -/
structure FileInfo where
  ok : Bool
  includes : List Inc
  deriving Repr, Inhabited

structure Fs where
  files : List FileInfo
  libs : List Lib
  deriving Repr, Inhabited

def Fs.n (fs : Fs) : Nat := fs.files.length

def Fs.incs (fs : Fs) (f : File) : List Inc :=
  match fs.files[f]? with
  | some i => if i.ok then i.includes else []
  | none => []

/-- `include_library`: libraries in the order given on the command line -/
def libLookup (i : Inc) : List Lib → Option File
  | [] => none
  | .dir es :: r =>
    -- every written path is looked up (after the `fix:`; before, paths starting with `.` were skipped)
    match es.lookup i.key with
    | some f => some f
    | none => libLookup i r
  | .file t nm :: r =>
    if !i.sep && nm == i.key then some t else libLookup i r

/-- resolution order: relative to the including file, then the libraries -/
def resolve (libs : List Lib) (i : Inc) : Option File :=
  match i.rel with
  | some p => some p
  | none => libLookup i libs

structure St where
  stack : List File              -- head = top of the stack
  black : List File              -- `black_paths`
  reads : List File              -- files handed to `parse_file`, oldest first
  errors : List (File × Nat)     -- unresolved includes: (including file, index of the include)
  deriving Repr, Inhabited, DecidableEq

/-- `add_include` followed by the error push of `parse_file` -/
def addInclude (libs : List Lib) (f : File) (st : St) (idx : Nat) (i : Inc) : St :=
  match i.rel with
  | some p => if st.black.contains p then st else { st with stack := p :: st.stack }
  | none =>
    match libLookup i libs with
    | some p => { st with stack := p :: st.stack }
    | none => { st with errors := st.errors ++ [(f, idx)] }

def addIncludes (libs : List Lib) (f : File) : St → Nat → List Inc → St
  | st, _, [] => st
  | st, idx, i :: r => addIncludes libs f (addInclude libs f st idx i) (idx + 1) r

/-- `take_next`: pop until a path that is not black -/
def takeNext (black : List File) : List File → Option (File × List File)
  | [] => none
  | f :: r => if black.contains f then takeNext black r else some (f, r)

/-- one iteration of the `while let Some(file_path) = take_next` loop -/
def step (fs : Fs) (st : St) : Option St :=
  match takeNext st.black st.stack with
  | none => none
  | some (f, r) =>
    some (addIncludes fs.libs f
      { st with stack := r, black := f :: st.black, reads := st.reads ++ [f] } 0 (fs.incs f))

def run (fs : Fs) : Nat → St → St
  | 0, st => st
  | k + 1, st =>
    match step fs st with
    | none => { st with stack := [] }
    | some st' => run fs k st'

/-- `FileStack::new`: the named files are pushed in order (the last one is read first) -/
def init (inputs : List File) : St :=
  { stack := inputs.reverse, black := [], reads := [], errors := [] }

def parseFiles (fs : Fs) (inputs : List File) : St := run fs (fs.n + 1) (init inputs)

/-- the files which were read (or should have been) but cannot be used as they are — they cannot be opened, do not parse, or include
    a file that cannot be found — and are not themselves named on the command line -/
def badFiles (fs : Fs) (inputs reads : List File) : List File :=
  (reads.flatMap (fun f => (fs.incs f).filterMap (fun i =>
    match resolve fs.libs i with
    | some t => if !((fs.files[t]?.map (·.ok)).getD false) && !inputs.contains t then some t else none
    | none => none)) ++
   -- … and the files, not named either, with an include statement that cannot be resolved: what the missing file defines is missing
   -- from everything above them as well (repair of the gap a review found in b4f5d8c)
   reads.filter (fun f => !inputs.contains f && (fs.incs f).any (fun i => (resolve fs.libs i).isNone))).eraseDups

/-- from an included file to the files that include it; a file named on the command line is not climbed from -/
def upEdges (fs : Fs) (inputs reads : List File) : List (File × File) :=
  reads.flatMap (fun f => (fs.incs f).filterMap (fun i =>
    match resolve fs.libs i with
    | some v => if inputs.contains v then none else some (v, f)
    | none => none))

/-- the include statements through which a file that cannot be used is reached: `parse_files` reports each of them, after all
    files have been read (repairs fbd2e79, c7e33f0, a095136; since b4f5d8c not only the statements that refer to the file but also
    those that refer to the files they occur in, and so on up to the named files — `FileStack::included_from`) -/
def badSites (fs : Fs) (inputs reads : List File) : List (File × Nat) :=
  let hit := (badFiles fs inputs reads).flatMap (fun t => CfgReach.closure (upEdges fs inputs reads) [t])
  reads.flatMap (fun f => (fs.incs f).zipIdx.filterMap (fun ii =>
    match resolve fs.libs ii.1 with
    | some v => if !inputs.contains v && hit.contains v then some (f, ii.2) else none
    | none => none))

/-- `is_user_input` -/
def isUserInput (inputs : List File) (f : File) : Bool := inputs.contains f

/-- every file mentioned anywhere is one of the `n` files -/
def incWf (n : Nat) (i : Inc) : Bool :=
  match i.rel with
  | some p => decide (p < n)
  | none => true

def libWf (n : Nat) : Lib → Bool
  | .dir es => es.all (fun e => decide (e.2 < n))
  | .file t _ => decide (t < n)

def Fs.wf (fs : Fs) (inputs : List File) : Bool :=
  fs.files.all (fun i => i.includes.all (incWf fs.n)) && fs.libs.all (libWf fs.n) &&
  inputs.all (fun f => decide (f < fs.n))

end Circomspect.Includes
