/-
Model of `program_analysis/src/unconstrained_less_than.rs` (C11) above the threshold `Curve.rangeChecked`: which `Num2Bits`
an input of `LessThan` is taken to be checked by.  Statements are abstracted to what the pass looks at:

* `inst key t`   — `var[access] = T(args)`: the component (name and access) and what it is instantiated as;
* `input key port indexed whole elems` — `var[access].port <== value` or `var[access].port[i] <== value` (`indexed`): `whole` is
  the canonical text of the assigned expression (the pass compares expressions, not locations), `elems` the texts of its elements
  if it is an inline array `[v₀, v₁, …]`.

Since the `fix:` ee9259e a component is looked up by `maybe_equal` (as in `SignalAssign.mayAlias`, but for accesses of equal
length): every recorded instantiation that may be the component must agree, otherwise the component is not tracked.
-/
import Circomspect.Model.SignalAssign
import Circomspect.Model.Curve

namespace Circomspect.LessThanPass
open Circomspect.SignalAssign (Acc accAlias)

inductive Inst
  | lessThan
  | num2bits (size : Option Nat) (sizeText : String)   -- the value constant propagation knows for the size, and the size expression
  | unknown                                            -- another template, or instantiated in more than one way
  deriving Repr, DecidableEq

structure Key where
  id : String            -- name and exact access (canonical text): what `add_component` compares
  name : String
  acc : List Acc
  deriving Repr, DecidableEq

inductive Stmt
  | inst (key : Key) (t : Inst)
  | input (key : Key) (port : String) (indexed : Bool) (whole : String) (elems : Option (List String))
  | other
  deriving Repr, DecidableEq

/-- `Component::same_as`: `Unknown` is not the same as anything -/
def sameAs : Inst → Inst → Bool
  | .lessThan, .lessThan => true
  | .num2bits _ a, .num2bits _ b => a == b
  | _, _ => false

/-- `add_component` -/
def addComponent (cs : List (Key × Inst)) (k : Key) (t : Inst) : List (Key × Inst) :=
  match cs.find? (fun e => e.1.id == k.id) with
  | none => cs ++ [(k, t)]
  | some e => if sameAs e.2 t then cs else cs.map (fun x => if x.1.id == k.id then (x.1, Inst.unknown) else x)

def components (ss : List Stmt) : List (Key × Inst) :=
  ss.foldl (fun cs s => match s with | .inst k t => addComponent cs k t | _ => cs) []

/-- `VariableAccess::maybe_equal` -/
def maybeEqual (a b : Key) : Bool :=
  a.name == b.name && a.acc.length == b.acc.length && (a.acc.zip b.acc).all (fun p => accAlias p.1 p.2)

/-- `get_component`: the instantiation all candidates agree on -/
def getComponent (cs : List (Key × Inst)) (k : Key) : Option Inst :=
  match cs.filter (fun e => maybeEqual e.1 k) with
  | [] => none
  | e :: rest => if rest.all (fun x => sameAs e.2 x.2) then some e.2 else some .unknown

inductive Input
  | lessThan (value : String)
  | num2bits (value : String) (size : Option Nat)
  deriving Repr, DecidableEq

/-- `update_inputs` on one statement -/
def inputsOf (cs : List (Key × Inst)) : Stmt → List Input
  | .input k port indexed whole elems =>
    if port != "in" then []
    else match getComponent cs k with
      | some (.num2bits size _) => if indexed then [] else [.num2bits whole size]
      | some .lessThan =>
        if indexed then [.lessThan whole]
        else (match elems with | some vs => vs.map .lessThan | none => [])
      | _ => []
  | _ => []

def inputs (ss : List Stmt) : List Input := ss.flatMap (inputsOf (components ss))

/-- `find_unconstrained_less_than`: the values reported under curve `c` -/
def reported (c : Curve.Curve) (ss : List Stmt) : List String :=
  let ins := inputs ss
  let lts := (ins.filterMap (fun i => match i with | .lessThan v => some v | _ => none)).eraseDups
  lts.filter (fun v => !(ins.any (fun i => match i with
    | .num2bits w (some k) => w == v && Curve.rangeChecked c k
    | _ => false)))

end Circomspect.LessThanPass
