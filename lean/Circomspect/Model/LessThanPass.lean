/-
Model of `program_analysis/src/unconstrained_less_than.rs` (C11) above the threshold `Curve.rangeChecked`: which `Num2Bits`
an input of `LessThan` is taken to be checked by.  Statements are abstracted to what the pass looks at:

* `inst key t`   — `var[access] = T(args)`: the component (name and access) and what it is instantiated as;
* `input key port indexed whole elems block` — `var[access].port <== value` or `var[access].port[i] <== value` (`indexed`) in basic
  block `block`: `whole` is the assigned expression — its canonical text (the pass compares expressions, not locations) and whether
  it is *fixed*, i.e. reads no local variable other than parameters of the template as passed (since fd9ca6e; a parameter that is
  assigned is another SSA variable) —, `elems` its elements if it is an inline array `[v₀, v₁, …]`.

Since the `fix:` ee9259e a component is looked up by `maybe_equal` (as in `SignalAssign.mayAlias`, but for accesses of equal
length), and since its review all instantiations are kept: the inputs are examined when *some* instantiation that may be the
component is `LessThan`, and an input counts as range checked only when *every* one is the same `Num2Bits`.
-/
import Circomspect.Model.SignalAssign
import Circomspect.Model.Curve

namespace Circomspect.LessThanPass
open Circomspect.SignalAssign (Acc accAlias)

inductive Inst
  | lessThan
  | num2bits (size : Option Nat) (sizeText : String)   -- the value constant propagation knows for the size, and the size expression
  | unknown                                            -- another template
  deriving Repr, DecidableEq

structure Key where
  id : String            -- name and exact access (canonical text): what `add_component` compares
  name : String
  acc : List Acc
  deriving Repr, DecidableEq

/-- an expression: its canonical text, and whether it reads no local variable other than a parameter as passed (then it has one value in
    the whole template) -/
abbrev Val := String × Bool

inductive Stmt
  | inst (key : Key) (t : Inst)
  | input (key : Key) (port : String) (indexed : Bool) (whole : Val) (elems : Option (List Val)) (block : Nat)
  | other
  deriving Repr, DecidableEq

/-- two instantiations are the same `Num2Bits` (the size expressions are compared) -/
def sameSize : Inst → Inst → Bool
  | .num2bits _ a, .num2bits _ b => a == b
  | _, _ => false

/-- `add_component` (since the `fix:` after the review of ee9259e every instantiation is kept) -/
def components (ss : List Stmt) : List (Key × Inst) :=
  ss.filterMap (fun s => match s with | .inst k t => some (k, t) | _ => none)

/-- `VariableAccess::maybe_equal` -/
def maybeEqual (a b : Key) : Bool :=
  a.name == b.name && a.acc.length == b.acc.length && (a.acc.zip b.acc).all (fun p => accAlias p.1 p.2)

/-- `get_components`: the instantiations of the components the access may refer to -/
def candidates (cs : List (Key × Inst)) (k : Key) : List Inst :=
  (cs.filter (fun e => maybeEqual e.1 k)).map (·.2)

/-- `may_be_less_than`: the inputs are examined as soon as some instantiation is `LessThan` -/
def mayBeLessThan (is : List Inst) : Bool := is.any (fun t => t == .lessThan)

/-- `get_bit_size`: the component counts as `Num2Bits` of a size only if every instantiation is that `Num2Bits` -/
def bitSize : List Inst → Option (Option Nat)
  | [] => none
  | .num2bits s t :: rest => if rest.all (fun x => sameSize (.num2bits s t) x) then some s else none
  | _ :: _ => none

inductive Input
  | lessThan (value : Val) (block : Nat)
  | num2bits (value : Val) (size : Option Nat) (block : Nat)
  deriving Repr, DecidableEq

/-- `update_inputs` on one statement: the `Num2Bits` reading and the `LessThan` readings are independent of each other -/
def inputsOf (cs : List (Key × Inst)) : Stmt → List Input
  | .input k port indexed whole elems b =>
    if port != "in" then []
    else
      let is := candidates cs k
      (match bitSize is with
       | some size => if indexed then [] else [.num2bits whole size b]
       | none => []) ++
      (if mayBeLessThan is then
         (if indexed then [.lessThan whole b]
          else match elems with | some vs => vs.map (fun v => .lessThan v b) | none => [.lessThan whole b])
       else [])
  | _ => []

def inputs (ss : List Stmt) : List Input := ss.flatMap (inputsOf (components ss))

/-- a `LessThan` input `v` assigned in block `b` is covered: some `Num2Bits` of known, qualifying size has the same expression as
    input — anywhere if the expression is fixed; if it reads a local variable, in a basic block that dominates `b` (`dom b2 b`, every
    block dominates itself). Since the `fix:` 2b59069 a check elsewhere does not count (`x[i]` after a loop is another element than
    `x[i]` in its body); the first version of that repair demanded the same block, which the differential review showed to be too
    strict (`var total = a + b`, checked once at the top and compared in a loop). `DomCheck.no_redefinition` is why dominance is
    enough: after the last visit of the checking block no block defining a variable of the expression is visited again. -/
def covered (c : Curve.Curve) (dom : Nat → Nat → Bool) (ins : List Input) (v : Val) (b : Nat) : Bool :=
  ins.any (fun i => match i with
    | .num2bits w (some k) b2 => w.1 == v.1 && Curve.rangeChecked c k && (v.2 || dom b2 b)
    | _ => false)

/-- `find_unconstrained_less_than`: the values reported under curve `c` (one report per expression) -/
def reported (c : Curve.Curve) (dom : Nat → Nat → Bool) (ss : List Stmt) : List String :=
  let ins := inputs ss
  ((ins.filterMap (fun i => match i with
    | .lessThan v b => if covered c dom ins v b then none else some v.1
    | _ => none))).eraseDups

/-- the dominance relation given by the dominator sets of the blocks (`Cfg::get_dominators`; a block dominates itself) -/
def domOf (doms : List (Nat × List Nat)) (b2 b : Nat) : Bool :=
  b2 == b || (match doms.find? (fun e => e.1 == b) with | some e => e.2.contains b2 | none => false)

end Circomspect.LessThanPass
