/-
Model of `parser/src/syntax_sugar_remover.rs` and `parser/src/syntax_sugar_traits.rs`: the removal of
anonymous components and tuples from templates and the rejection of functions that contain them.

The AST is the one of `program_structure::ast` with every node's source range (`Meta`); anonymous
components and `while` statements also carry the string `<line>_<start>` which the remover uses to
name the generated component / loop counter (`file_library.get_line(meta.start)` and `meta.start`).
Errors are `(range, message)` — the range and message of the real `TupleError` /
`AnonymousComponentError` report.
-/
namespace Circomspect.Desugar

abbrev Meta := Nat × Nat

inductive Op | var | sig | csig
  deriving DecidableEq, Repr, Inhabited

inductive VT
  | local_
  | signal (kind : String)
  | component
  | anon
  deriving DecidableEq, Repr, Inhabited

mutual
inductive Expr
  | infix (m : Meta) (op : String) (l r : Expr)
  | prefix (m : Meta) (op : String) (e : Expr)
  | switch (m : Meta) (c t f : Expr)
  | var (m : Meta) (name : String) (access : Accs)
  | num (m : Meta) (n : String)
  | call (m : Meta) (id : String) (args : Exprs)
  | anon (m : Meta) (label : String) (id : String) (params signals : Exprs)
      (names : Option (List (Op × String))) (par : Bool)
  | arr (m : Meta) (vals : Exprs)
  | tuple (m : Meta) (vals : Exprs)
  | par (m : Meta) (e : Expr)
inductive Exprs
  | nil
  | cons (e : Expr) (r : Exprs)
inductive Acc
  | idx (e : Expr)
  | cmp (name : String)
inductive Accs
  | nil
  | cons (a : Acc) (r : Accs)
end

instance : Inhabited Expr := ⟨.num (0, 0) "0"⟩

inductive LogArg
  | str (len : Nat)
  | exp (e : Expr)

mutual
inductive Stmt
  | ite (m : Meta) (c : Expr) (t : Stmt) (e : OptStmt)
  | while_ (m : Meta) (label : String) (c : Expr) (body : Stmt)
  | ret (m : Meta) (e : Expr)
  | init (m : Meta) (xt : VT) (inits : Stmts)
  | decl (m : Meta) (xt : VT) (name : String) (dims : Exprs)
  | sub (m : Meta) (v : String) (access : Accs) (op : Op) (rhe : Expr)
  | msub (m : Meta) (lhe : Expr) (op : Op) (rhe : Expr)
  | ceq (m : Meta) (l r : Expr)
  | log (m : Meta) (args : List LogArg)
  | block (m : Meta) (stmts : Stmts)
  | assert (m : Meta) (e : Expr)
inductive Stmts
  | nil
  | cons (s : Stmt) (r : Stmts)
inductive OptStmt
  | none
  | some (s : Stmt)
end

instance : Inhabited Stmt := ⟨.block (0, 0) .nil⟩

def Exprs.toList : Exprs → List Expr
  | .nil => []
  | .cons e r => e :: r.toList

def Exprs.ofList : List Expr → Exprs
  | [] => .nil
  | e :: r => .cons e (Exprs.ofList r)

def Accs.ofList : List Acc → Accs
  | [] => .nil
  | a :: r => .cons a (Accs.ofList r)

def Accs.toList : Accs → List Acc
  | .nil => []
  | .cons a r => a :: r.toList

def Stmts.toList : Stmts → List Stmt
  | .nil => []
  | .cons s r => s :: r.toList

def Stmts.ofList : List Stmt → Stmts
  | [] => .nil
  | s :: r => .cons s (Stmts.ofList r)

def Expr.meta : Expr → Meta
  | .infix m _ _ _ => m
  | .prefix m _ _ => m
  | .switch m _ _ _ => m
  | .var m _ _ => m
  | .num m _ => m
  | .call m _ _ => m
  | .anon m _ _ _ _ _ _ => m
  | .arr m _ => m
  | .tuple m _ => m
  | .par m _ => m

def Expr.isTuple : Expr → Bool
  | .tuple _ _ => true
  | _ => false

def Expr.isAnon : Expr → Bool
  | .anon _ _ _ _ _ _ _ => true
  | _ => false

def Expr.isCall : Expr → Bool
  | .call _ _ _ => true
  | _ => false

def Expr.isVar : Expr → Bool
  | .var _ _ _ => true
  | _ => false

/-! ### `ContainsExpression`: outermost occurrences, in traversal order.
    `k = true`: tuples, `k = false`: anonymous components. -/

mutual
def collectE (k : Bool) : Expr → List Meta
  | .infix _ _ l r => collectE k l ++ collectE k r
  | .prefix _ _ e => collectE k e
  | .switch _ c t f => collectE k c ++ collectE k t ++ collectE k f
  | .var _ _ acc => collectAs k acc
  | .num _ _ => []
  | .call _ _ args => collectEs k args
  | .anon m _ _ ps ss _ _ => if k then collectEs k ps ++ collectEs k ss else [m]
  | .arr _ vs => collectEs k vs
  | .tuple m vs => if k then [m] else collectEs k vs
  | .par _ e => collectE k e
def collectEs (k : Bool) : Exprs → List Meta
  | .nil => []
  | .cons e r => collectE k e ++ collectEs k r
def collectA (k : Bool) : Acc → List Meta
  | .idx e => collectE k e
  | .cmp _ => []
def collectAs (k : Bool) : Accs → List Meta
  | .nil => []
  | .cons a r => collectA k a ++ collectAs k r
end

def containsE (k : Bool) (e : Expr) : Bool := !(collectE k e).isEmpty
def containsEs (k : Bool) (es : Exprs) : Bool := !(collectEs k es).isEmpty
def containsAs (k : Bool) (a : Accs) : Bool := !(collectAs k a).isEmpty

def collectLog (k : Bool) : List LogArg → List Meta
  | [] => []
  | .str _ :: r => collectLog k r
  | .exp e :: r => collectE k e ++ collectLog k r

mutual
def collectS (k : Bool) : Stmt → List Meta
  | .ite _ c t e => collectE k c ++ collectS k t ++ collectO k e
  | .while_ _ _ c b => collectE k c ++ collectS k b
  | .ret _ e => collectE k e
  | .init _ _ is => collectSs k is
  | .decl _ _ _ dims => collectEs k dims
  | .sub _ _ acc _ rhe => collectAs k acc ++ collectE k rhe
  | .msub _ l _ r => collectE k l ++ collectE k r
  | .ceq _ l r => collectE k l ++ collectE k r
  | .log _ args => collectLog k args
  | .block _ ss => collectSs k ss
  | .assert _ e => collectE k e
def collectSs (k : Bool) : Stmts → List Meta
  | .nil => []
  | .cons s r => collectS k s ++ collectSs k r
def collectO (k : Bool) : OptStmt → List Meta
  | .none => []
  | .some s => collectS k s
end

/-! `contains_invalid_assignment`: assignments whose left-hand side is not a variable -/
mutual
def invalidS : Stmt → List Meta
  | .msub _ l _ _ => [l.meta]
  | .ite _ _ t e => invalidS t ++ invalidO e
  | .while_ _ _ _ b => invalidS b
  | .init _ _ is => invalidSs is
  | .block _ ss => invalidSs ss
  | _ => []
def invalidSs : Stmts → List Meta
  | .nil => []
  | .cons s r => invalidS s ++ invalidSs r
def invalidO : OptStmt → List Meta
  | .none => []
  | .some s => invalidS s
end

abbrev Err := Meta × String

/-- the template table: name, input signals and output signals in declaration order -/
structure TemplateSig where
  name : String
  inputs : List String
  outputs : List String
  deriving Repr, Inhabited

def lookupT (tbl : List TemplateSig) (id : String) : Option TemplateSig :=
  tbl.find? (fun t => t.name == id)

/-! ### anonymous components -/

abbrev AnonRes := List Stmt × List Stmt × Expr   -- substitutions, declarations, value

def firstAnon (msg : Meta → Meta) : Exprs → Option Meta
  | .nil => none
  | .cons e r => if containsE false e then some (msg e.meta) else firstAnon msg r

def firstIdxWith (k : Bool) : Accs → Option Meta
  | .nil => none
  | .cons (.idx e) r => if containsE k e then some e.meta else firstIdxWith k r
  | .cons (.cmp _) r => firstIdxWith k r

def indexOf (n : String) : List String → Option Nat
  | [] => none
  | x :: r => if x == n then some 0 else (indexOf n r).map (· + 1)

/-- positions (into `signals`) and operators of the template inputs, in declaration order -/
def inputPlan (m : Meta) (inputs : List String) (names : Option (List (Op × String))) (nsignals : Nat) :
    Except Err (List (String × Nat × Op)) :=
  match names with
  | some ns =>
    let nms := ns.map (·.2)
    let rec go : List String → Except Err (List (String × Nat × Op))
      | [] => .ok []
      | inp :: r =>
        match indexOf inp nms with
        | none => .error (m, s!"The input signal `{inp}` is not assigned by the anonymous component call.")
        | some pos =>
          match go r with
          | .error e => .error e
          | .ok rest => .ok ((inp, pos, (ns[pos]?.map (·.1)).getD .csig) :: rest)
    match go inputs with
    | .error e => .error e
    | .ok plan =>
      if inputs.length ≠ nsignals then
        .error (m, "The number of input arguments must be equal to the number of input signals of the template.")
      else .ok plan
  | none =>
    if inputs.length ≠ nsignals then
      .error (m, "The number of input arguments must be equal to the number of input signals of the template.")
    else .ok ((inputs.zip (List.range nsignals)).map (fun (inp, i) => (inp, i, Op.csig)))

/-- the body of the `AnonymousComponent` arm, given the (already computed) results for the signals -/
def anonBody (tbl : List TemplateSig) (va : Option Expr) (m : Meta) (label id : String)
    (params : Exprs) (names : Option (List (Op × String))) (par : Bool) (nsignals : Nat)
    (rs : List (Except Err AnonRes)) : Except Err AnonRes :=
  match lookupT tbl id with
  | none => .error (m, s!"The template `{id}` does not exist.")
  | some t =>
    let idAnon := id ++ "#" ++ label
    let decl0 : Stmt := match va with
      | none => .decl m .component idAnon .nil
      | some v => .decl m .anon idAnon (.cons v .nil)
    if containsEs false params then
      .error (m, "An anonymous component cannot be used as a argument to a template call.")
    else
      let call : Expr := .call m id params
      let withCall : Expr := if par then .par m call else call
      let acc0 : List Acc := match va with
        | none => []
        | some v => [.idx v]
      let sub0 : Stmt := .sub m idAnon (Accs.ofList acc0) .var withCall
      match inputPlan m t.inputs names nsignals with
      | .error e => .error e
      | .ok plan =>
        let rec go : List (String × Nat × Op) → List Stmt → List Stmt → Except Err (List Stmt × List Stmt)
          | [], seq, decls => .ok (seq, decls)
          | (inp, pos, op) :: r, seq, decls =>
            match rs[pos]? with
            | none => .error (m, "unreachable: signal position out of range")
            | some (.error e) => .error e
            | some (.ok (stmts, ndecls, e')) =>
              if containsE false e' then
                .error (e'.meta, "The inputs to an anonymous component cannot contain anonymous components.")
              else
                go r (seq ++ stmts ++ [.sub m idAnon (Accs.ofList (acc0 ++ [.cmp inp])) op e'])
                  (decls ++ ndecls)
        match go plan [sub0] [decl0] with
        | .error e => .error e
        | .ok (seq, decls) =>
          let outVar (o : String) : Expr := .var m idAnon (Accs.ofList (acc0 ++ [.cmp o]))
          let out : Expr := match t.outputs with
            | [o] => outVar o
            | os => .tuple m (Exprs.ofList (os.map outVar))
          .ok ([.block m (Stmts.ofList seq)], decls, out)

def exprsLen : Exprs → Nat
  | .nil => 0
  | .cons _ r => exprsLen r + 1

mutual
def rmAnonE (tbl : List TemplateSig) (va : Option Expr) : Expr → Except Err AnonRes
  | .arr m vs =>
    match firstAnon id vs with
    | some em => .error (em, "An anonymous component cannot be used to define the dimensions of an array.")
    | none => .ok ([], [], .arr m vs)
  | .num m n => .ok ([], [], .num m n)
  | .var m n acc =>
    if containsAs false acc then .error (m, "An anonymous component cannot be used to access an array.")
    else .ok ([], [], .var m n acc)
  | .infix m op l r =>
    if containsE false l || containsE false r then
      .error (m, "Anonymous components cannot be used in arithmetic or boolean expressions.")
    else .ok ([], [], .infix m op l r)
  | .prefix m op e =>
    if containsE false e then
      .error (m, "Anonymous components cannot be used in arithmetic or boolean expressions.")
    else .ok ([], [], .prefix m op e)
  | .switch m c t f =>
    if containsE false c || containsE false t || containsE false f then
      .error (m, "An anonymous component cannot be used inside an inline switch expression.")
    else .ok ([], [], .switch m c t f)
  | .call m i args =>
    if containsEs false args then
      .error (m, "An anonymous component cannot be used as an argument to a template call.")
    else .ok ([], [], .call m i args)
  | .anon m label i ps ss names par =>
    anonBody tbl va m label i ps names par (exprsLen ss) (rmAnonEs tbl va ss)
  | .tuple m vs =>
    match rmAnonTuple tbl va vs with
    | .error e => .error e
    | .ok (stmts, decls, vals) => .ok (stmts, decls, .tuple m (Exprs.ofList vals))
  | .par m e => rmAnonPar tbl va m e
/-- the `ParallelOp` arm: `parallel T(..)(..)` is the anonymous component with the parallel flag -/
def rmAnonPar (tbl : List TemplateSig) (va : Option Expr) (m : Meta) : Expr → Except Err AnonRes
  | .anon m2 label i ps ss names _ =>
    anonBody tbl va m2 label i ps names true (exprsLen ss) (rmAnonEs tbl va ss)
  | .call m2 i args =>
    if containsEs false args then
      .error (m, "An anonymous component cannot be used as a parameter in a template call.")
    else .ok ([], [], .par m (.call m2 i args))
  | e =>
    if containsE false e then
      .error (m, "Invalid use of the parallel operator together with an anonymous component.")
    else .ok ([], [], .par m e)
def rmAnonEs (tbl : List TemplateSig) (va : Option Expr) : Exprs → List (Except Err AnonRes)
  | .nil => []
  | .cons e r => rmAnonE tbl va e :: rmAnonEs tbl va r
def rmAnonTuple (tbl : List TemplateSig) (va : Option Expr) : Exprs → Except Err (List Stmt × List Stmt × List Expr)
  | .nil => .ok ([], [], [])
  | .cons e r =>
    match rmAnonE tbl va e with
    | .error err => .error err
    | .ok (stmts, decls, e') =>
      match rmAnonTuple tbl va r with
      | .error err => .error err
      | .ok (stmts2, decls2, es) => .ok (stmts ++ stmts2, decls ++ decls2, e' :: es)
end

def firstLogAnon : List LogArg → Bool
  | [] => false
  | .str _ :: r => firstLogAnon r
  | .exp e :: r => containsE false e || firstLogAnon r

def wrapSubs (m : Meta) (stmts : List Stmt) (subs : Stmt) : Stmt :=
  if stmts.isEmpty then subs else .block m (Stmts.ofList (stmts ++ [subs]))

mutual
def rmAnonS (tbl : List TemplateSig) (va : Option Expr) : Stmt → Except Err (Stmt × List Stmt)
  | .msub m l op r =>
    if containsE false l then
      .error (l.meta, "An anonymous component cannot occur as the left-hand side of an assignment")
    else
      match rmAnonE tbl va r with
      | .error e => .error e
      | .ok (stmts, decls, r') => .ok (wrapSubs m stmts (.msub m l op r'), decls)
  | .ite m c t e =>
    if containsE false c then .error (m, "Anonymous components cannot be used inside conditions.")
    else
      match rmAnonS tbl va t with
      | .error err => .error err
      | .ok (t', decls) =>
        match rmAnonO tbl va e with
        | .error err => .error err
        | .ok (e', decls2) => .ok (.ite m c t' e', decls ++ decls2)
  | .while_ m label c b =>
    if containsE false c then .error (c.meta, "Anonymous components cannot be used inside conditions.")
    else
      let idVar := "anon_var@" ++ label
      let va' : Expr := .var m idVar .nil
      match rmAnonS tbl (some va') b with
      | .error err => .error err
      | .ok (b', ndecls) =>
        if ndecls.isEmpty then .ok (.while_ m label c b', [])
        else
          let decls := [Stmt.decl m .local_ idVar .nil, .sub m idVar .nil .var (.num m "0")] ++ ndecls
          let inc : Stmt := .sub m idVar .nil .var (.infix m "add" va' (.num m "1"))
          .ok (.while_ m label c (.block m (.cons b' (.cons inc .nil))), decls)
  | .log m args =>
    if firstLogAnon args then .error (m, "An anonymous component cannot be used inside a log statement.")
    else .ok (.log m args, [])
  | .assert m e =>
    if containsE false e then .error (m, "An anonymous component cannot be used inside an assert statement.")
    else .ok (.assert m e, [])
  | .ret m e =>
    if containsE false e then .error (m, "An anonymous component cannot be used as a return value.")
    else .ok (.ret m e, [])
  | .ceq m l r =>
    if containsE false l || containsE false r then
      .error (m, "Anonymous components cannot be used together with the constraint equality operator `===`.")
    else .ok (.ceq m l r, [])
  | .decl m xt n dims =>
    match firstAnon id dims with
    | some em => .error (em, "An anonymous component cannot be used to define the dimensions of an array.")
    | none => .ok (.decl m xt n dims, [])
  | .init m xt is =>
    match rmAnonSs tbl va is with
    | .error err => .error err
    | .ok (is', decls) => .ok (.init m xt is', decls)
  | .block m ss =>
    match rmAnonSs tbl va ss with
    | .error err => .error err
    | .ok (ss', decls) => .ok (.block m ss', decls)
  | .sub m v acc op r =>
    match firstIdxWith false acc with
    | some em => .error (em, "An anonymous component cannot be used to access an array.")
    | none =>
      match rmAnonE tbl va r with
      | .error e => .error e
      | .ok (stmts, decls, r') => .ok (wrapSubs m stmts (.sub m v acc op r'), decls)
def rmAnonSs (tbl : List TemplateSig) (va : Option Expr) : Stmts → Except Err (Stmts × List Stmt)
  | .nil => .ok (.nil, [])
  | .cons s r =>
    match rmAnonS tbl va s with
    | .error err => .error err
    | .ok (s', decls) =>
      match rmAnonSs tbl va r with
      | .error err => .error err
      | .ok (r', decls2) => .ok (.cons s' r', decls ++ decls2)
def rmAnonO (tbl : List TemplateSig) (va : Option Expr) : OptStmt → Except Err (OptStmt × List Stmt)
  | .none => .ok (.none, [])
  | .some s =>
    match rmAnonS tbl va s with
    | .error err => .error err
    | .ok (s', decls) => .ok (.some s', decls)
end

/-! ### tuples -/

def anyContains (k : Bool) : Exprs → Bool
  | .nil => false
  | .cons e r => containsE k e || anyContains k r

mutual
def rmTupE : Expr → Except Err Expr
  | .arr m vs =>
    if anyContains true vs then .error (m, "A tuple cannot be used to define the dimensions of an array.")
    else .ok (.arr m vs)
  | .num m n => .ok (.num m n)
  | .var m n acc =>
    if containsAs true acc then .error (m, "A tuple cannot be used to access an array.")
    else .ok (.var m n acc)
  | .infix m op l r =>
    if containsE true l || containsE true r then
      .error (m, "Tuples cannot be used in arithmetic or boolean expressions.")
    else .ok (.infix m op l r)
  | .prefix m op e =>
    if containsE true e then .error (m, "Tuples cannot be used in arithmetic or boolean expressions.")
    else .ok (.prefix m op e)
  | .switch m c t f =>
    if containsE true c || containsE true t || containsE true f then
      .error (m, "Tuples cannot be used inside an inline switch expression.")
    else .ok (.switch m c t f)
  | .call m i args =>
    if anyContains true args then .error (m, "Tuples cannot be used as an argument to a function call.")
    else .ok (.call m i args)
  | .anon m _ _ _ _ _ _ => .error (m, "unreachable: anonymous component after removal")
  | .tuple m vs =>
    match rmTupEs vs with
    | .error e => .error e
    | .ok vals => .ok (.tuple m (Exprs.ofList vals))
  | .par m e =>
    if containsE true e then .error (m, "Tuples cannot be used in parallel operators.")
    else .ok (.par m e)
def rmTupEs : Exprs → Except Err (List Expr)
  | .nil => .ok []
  | .cons e r =>
    match rmTupE e with
    | .error err => .error err
    | .ok e' =>
      match rmTupEs r with
      | .error err => .error err
      | .ok rest =>
        match e' with
        | .tuple _ inner => .ok (inner.toList ++ rest)
        | e' => .ok (e' :: rest)
end

mutual
def sepLogE : Expr → List LogArg
  | .tuple _ vs => [.str 1] ++ sepLogEs vs ++ [.str 1]
  | e => [.exp e]
def sepLogEs : Exprs → List LogArg
  | .nil => []
  | .cons e r => sepLogE e ++ sepLogEs r
end

def sepLog : List LogArg → List LogArg
  | [] => []
  | .str n :: r => .str n :: sepLog r
  | .exp e :: r => sepLogE e ++ sepLog r

def firstLogTuple : List LogArg → Option Meta
  | [] => none
  | .str _ :: r => firstLogTuple r
  | .exp e :: r => if containsE true e then some e.meta else firstLogTuple r

/-- the element-wise assignments of `(l1, ..) op (r1, ..)`; `none` when an element of the destination
    is not a variable -/
def zipSubs (op : Op) : List Expr → List Expr → Option (List Stmt)
  | [], _ => some []
  | .var vm n acc :: ls, r :: rs =>
    match zipSubs op ls rs with
    | none => none
    | some rest => some (if n != "_" then .sub vm n acc op r :: rest else rest)
  | _, _ => none

mutual
def rmTupS : Stmt → Except Err Stmt
  | .msub m l op r =>
    match rmTupE l with
    | .error e => .error e
    | .ok l' =>
      match rmTupE r with
      | .error e => .error e
      | .ok r' =>
        match l', r' with
        | .tuple _ lv, .tuple _ rv =>
          if exprsLen lv == exprsLen rv then
            match zipSubs op lv.toList rv.toList with
            | some subs => .ok (.block m (Stmts.ofList subs))
            | none => .error (m, "The elements of the destination tuple must be either signals or variables.")
          else if exprsLen lv != 0 then .error (m, "The two tuples do not have the same length.")
          else .error (m, "This expression must be the right-hand side of an assignment.")
        | l', r' =>
          if l'.isTuple || l'.isVar then
            .error (r'.meta, "This expression must be a tuple or an anonymous component.")
          else .error (l'.meta, "This expression must be a tuple, a component, a signal or a variable.")
  | .ite m c t e =>
    if containsE true c then .error (m, "Tuples cannot be used in conditions.")
    else
      match rmTupS t with
      | .error err => .error err
      | .ok t' =>
        match rmTupO e with
        | .error err => .error err
        | .ok e' => .ok (.ite m c t' e')
  | .while_ m label c b =>
    if containsE true c then .error (m, "Tuples cannot be used in conditions.")
    else
      match rmTupS b with
      | .error err => .error err
      | .ok b' => .ok (.while_ m label c b')
  | .log m args =>
    let args' := sepLog args
    match firstLogTuple args' with
    | some em => .error (em, "Tuples cannot be used inside the expressions of a log statement.")
    | none => .ok (.log m args')
  | .assert m e =>
    if containsE true e then .error (m, "Tuples cannot be used in assert statements.")
    else .ok (.assert m e)
  | .ret m e =>
    if containsE true e then .error (m, "Tuple cannot be used in return values.")
    else .ok (.ret m e)
  | .ceq m l r =>
    if containsE true l || containsE true r then
      .error (m, "Tuples cannot be used together with the constraint equality operator `===`.")
    else .ok (.ceq m l r)
  | .decl m xt n dims =>
    if anyContains true dims then .error (m, "A tuple cannot be used to define the dimensions of an array.")
    else .ok (.decl m xt n dims)
  | .init m xt is =>
    match rmTupSs is with
    | .error err => .error err
    | .ok is' => .ok (.init m xt is')
  | .block m ss =>
    match rmTupSs ss with
    | .error err => .error err
    | .ok ss' => .ok (.block m ss')
  | .sub m v acc op r =>
    match rmTupE r with
    | .error e => .error e
    | .ok r' =>
      if r'.isTuple then .error (m, "Left-hand side of the statement is not a tuple.")
      else
        match firstIdxWith true acc with
        | some em => .error (em, "A tuple cannot be used to access an array.")
        | none => if v != "_" then .ok (.sub m v acc op r') else .ok (.block m .nil)
def rmTupSs : Stmts → Except Err Stmts
  | .nil => .ok .nil
  | .cons s r =>
    match rmTupS s with
    | .error err => .error err
    | .ok s' =>
      match rmTupSs r with
      | .error err => .error err
      | .ok r' => .ok (.cons s' r')
def rmTupO : OptStmt → Except Err OptStmt
  | .none => .ok .none
  | .some s =>
    match rmTupS s with
    | .error err => .error err
    | .ok s' => .ok (.some s')
end

/-! ### `remove_syntactic_sugar` -/

def isCompDecl : Stmt → Bool
  | .decl _ .component _ _ => true
  | .decl _ .anon _ _ => true
  | _ => false

def isVarDecl : Stmt → Bool
  | .decl _ .local_ _ _ => true
  | _ => false

def isSub : Stmt → Bool
  | .sub _ _ _ _ _ => true
  | _ => false

/-- one template: `ok body'` (kept, with the new body) or the error that drops it -/
def desugarTemplate (tbl : List TemplateSig) (body : Stmt) : Except Err Stmt :=
  match rmAnonS tbl none body with
  | .error e => .error e
  | .ok (.block m stmts, decls) =>
    let vars := decls.filter isVarDecl
    let comps := decls.filter isCompDecl
    let subs := decls.filter isSub
    rmTupS (.block m (Stmts.ofList
      ([Stmt.init m .local_ (Stmts.ofList vars)] ++ subs ++ [Stmt.init m .component (Stmts.ofList comps)] ++ stmts.toList)))
  | .ok _ => .error ((0, 0), "unreachable: template body is not a block")

/-- one function: the reports that make it rejected (empty: kept) -/
def functionReports (body : Stmt) : List Err :=
  let ts := collectS true body
  if !ts.isEmpty then ts.map (fun m => (m, "Tuples are not allowed in functions."))
  else
    let as := collectS false body
    if !as.isEmpty then as.map (fun m => (m, "Anonymous components are not allowed in functions."))
    else (invalidS body).map (fun m => (m, "This expression must be a tuple, a component, a signal or a variable."))

end Circomspect.Desugar
