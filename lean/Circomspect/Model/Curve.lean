/-
Model of the curve-dependent guards (C11). The tables and constants come from
`Gen/Tables.lean`, which the translator regenerates from /repo's source on every run; the
three guards (`bn254_specific_circuit.rs`, `nonstrict_binary_conversion.rs`,
`unconstrained_less_than.rs`) and `Curve::from_str` are modelled by hand.
-/
import Circomspect.Gen.Tables

namespace Circomspect.Curve
open Circomspect.Gen

inductive Curve | bn254 | bls12381 | goldilocks
  deriving DecidableEq, Repr

def primeOf : Curve → Nat
  | .bn254 => primeBn254
  | .bls12381 => primeBls12381
  | .goldilocks => primeGoldilocks

/-- `UsefulConstants::prime_size` = `BigInt::bits` -/
def primeBits (c : Curve) : Nat := Nat.log2 (primeOf c) + 1

/-- the `match cfg.constants().curve()` of `find_bn254_specific_circuits` -/
def tableOf : Curve → Option (List String)
  | .bn254 => dispatchBn254
  | .bls12381 => dispatchBls12381
  | .goldilocks => dispatchGoldilocks

/-- is an instantiation of template `name` reported as BN254-specific under curve `c`? -/
def flagged (c : Curve) (name : String) : Bool :=
  match tableOf c with
  | none => false
  | some t => t.contains name

/-- `find_nonstrict_binary_conversion`: only under BN254; an instantiation `Num2Bits(arg)` /
    `Bits2Num(arg)` is reported unless `arg` has a known value below the prime size.
    `value = none`: the size is not a compile-time constant. -/
def nonstrictFlagged (c : Curve) (value : Option Nat) : Bool :=
  match c with
  | .bn254 =>
    match value with
    | some v => !(decide (v < primeBits .bn254))
    | none => true
  | _ => false

/-- `find_unconstrained_less_than`: `Num2Bits(k)` on an input counts as a range check iff
    `k < prime_size - 1` -/
def rangeChecked (c : Curve) (k : Nat) : Bool := decide (k < primeBits c - 1)

/-- an instantiation `T(args)`: the template name and, per argument, the value constant propagation knows (if any) -/
structure Inst where
  name : String
  args : List (Option Nat)
  deriving DecidableEq, Repr

/-- what the two passes that look at instantiations report for one of them (`visit_statement` of `bn254_specific_circuit.rs` and of
    `nonstrict_binary_conversion.rs`): the report ids -/
def instReports (c : Curve) (i : Inst) : List String :=
  (if flagged c i.name then ["CS0016"] else []) ++
  (match i.args with
   | [a] => if (i.name == "Num2Bits" || i.name == "Bits2Num") && nonstrictFlagged c a then ["CS0010"] else []
   | _ => [])

/-- the instantiations of a program: those in the bodies of the analysed templates and — since the `fix:` 1121aa8, which runs the two
    passes on the statement `component main = T(...)` — the one of the main component -/
def programInsts (bodies : List (List Inst)) (main : Option Inst) : List Inst := bodies.flatten ++ main.toList

def programReports (c : Curve) (bodies : List (List Inst)) (main : Option Inst) : List (Inst × List String) :=
  (programInsts bodies main).map (fun i => (i, instReports c i))

def curveOfTag : String → Option Curve
  | "Bn254" => some .bn254
  | "Bls12_381" => some .bls12381
  | "Goldilocks" => some .goldilocks
  | _ => none

/-- `Curve::from_str` (after the `fix:`: ASCII case folding) -/
def parseCurve (s : String) : Option Curve :=
  match curveNames.find? (fun e => e.1 == s.toUpper) with
  | some e => curveOfTag e.2
  | none => none

end Circomspect.Curve
