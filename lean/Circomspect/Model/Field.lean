/-
Model of `circom_algebra/src/modular_arithmetic.rs` (C16), function by function.

Rust `BigInt` is `Int`; Rust `%` and `/` on `BigInt` truncate towards zero (`Int.tmod`,
`Int.tdiv`) and panic on a zero divisor. `to_radix_le(2)` is `toBits` (zero has the one digit
`0`), `from_radix_le(Sign::Plus, ..)` is `ofBits`. `to_usize` succeeds below `2^64`.
`mod_inverse` and `modpow` of `num-bigint-dig` are modelled (trusted base): `modInverse` by the
extended Euclidean algorithm with the same contract (`None` unless the gcd is one, result in
`[0, m)`), `modpow` as square-and-multiply.

Bitwise `& | ^` are modelled for non-negative operands only; `closed` theorems in
`Props/C16.lean` show that every operation returns a non-negative result on non-negative
operands, which is the only way the analyser calls them.  A negative operand yields
`.unmodelled`, never a made-up value.
-/
namespace Circomspect.Field

inductive ArithErr | div0 | shift
  deriving DecidableEq, Repr

inductive Out
  | ok (v : Int)
  | err (e : ArithErr)
  | panic (site : String)
  | unmodelled
  deriving DecidableEq, Repr

/-- Rust `a % b` on BigInt (panics when `b = 0`; callers guard). -/
def rem (a b : Int) : Int := a.tmod b

/-- `fn modulus(a, b) = ((a % b) + b) % b`. -/
def modulus (a b : Int) : Int := rem (rem a b + b) b

/-- little-endian binary digits, `[false]` for zero (as `to_radix_le(2)`). -/
def toBitsAux : Nat → Nat → List Bool
  | 0, _ => []
  | fuel + 1, n => if n = 0 then [] else (n % 2 == 1) :: toBitsAux fuel (n / 2)

def toBits (n : Nat) : List Bool := if n = 0 then [false] else toBitsAux n n

def ofBits : List Bool → Nat
  | [] => 0
  | b :: bs => (if b then 1 else 0) + 2 * ofBits bs

/-- `bit_representation(field).1.len()` -/
def bitLen (p : Int) : Nat := (toBits p.natAbs).length

/-- `fn mask(field) = 2^b - 1`. -/
def mask (p : Int) : Int := (2 : Int) ^ bitLen p - 1

def add (a b p : Int) : Int := modulus (a + b) p
def mul (a b p : Int) : Int := modulus (a * b) p
def sub (a b p : Int) : Int := modulus (a - b) p

/-- extended Euclid: remainders in `Nat`, Bezout coefficient of `a` in `Int`; returns
    `(g, x)` with `a * x ≡ g (mod m)`. Fuel-bounded (`r1 + 1` steps suffice). -/
def egcd : Nat → Nat → Nat → Int → Int → Nat × Int
  | 0, r0, _, s0, _ => (r0, s0)
  | fuel + 1, r0, r1, s0, s1 =>
    if r1 = 0 then (r0, s0)
    else egcd fuel r1 (r0 % r1) s1 (s0 - (Int.ofNat (r0 / r1)) * s1)

/-- `BigInt::mod_inverse` for a positive modulus: `None` unless `gcd(a, m) = 1`; result in
    `[0, m)`. -/
def modInverse (a m : Int) : Option Int :=
  let a' := (a % m).toNat
  let r := egcd (m.toNat + 2) m.toNat a' 0 1
  if r.1 = 1 then some (r.2 % m) else none

def div (a b p : Int) : Out :=
  match modInverse b p with
  | none => .err .div0
  | some inv => .ok (mul a inv p)

def idiv (a b p : Int) : Out :=
  let l := modulus a p
  let r := modulus b p
  if r = 0 then .err .div0 else .ok (l.tdiv r)

def modOp (a b p : Int) : Out :=
  let l := modulus a p
  let r := modulus b p
  if r = 0 then .err .div0 else .ok (modulus l r)

/-- square-and-multiply, as `modpow` (result in `[0, m)` for a non-negative base). -/
def modpowAux : Nat → Int → Nat → Int → Int → Int
  | 0, acc, _, _, _ => acc
  | fuel + 1, acc, e, b, m =>
    if e = 0 then acc
    else modpowAux fuel (if e % 2 = 1 then (acc * b) % m else acc) (e / 2) ((b * b) % m) m

def pow (a b p : Int) : Out :=
  if b < 0 then .panic "modpow: negative exponent"
  else .ok (modpowAux (b.toNat + 1) (1 % p) b.toNat (a % p) p)

def prefixSub (a p : Int) : Int := mul a (-1) p

/-- `complement_256` after the `fix:` (digits re-assembled with `Sign::Plus`). -/
def complement256 (a p : Int) : Int :=
  let bits := (toBits a.natAbs).take 256
  let bits := bits ++ List.replicate (256 - bits.length) false
  let bits := bits.map (fun b => !b)
  modulus (Int.ofNat (ofBits bits)) p

def usizeMax : Int := 2 ^ 64

/-- the `right <= top` arm of `shift_l` (after the `fix:`: counts of at least the bit size
    of the field are an error). -/
def shiftLCore (a k p : Int) : Out :=
  if k < 0 ∨ usizeMax ≤ k then .err .div0
  else if bitLen p ≤ k.toNat then .err .shift
  else if a < 0 then .unmodelled
  else .ok (modulus (Int.ofNat ((a * 2 ^ k.toNat).toNat &&& (mask p).toNat)) p)

/-- the `right <= top` arm of `shift_r`. -/
def shiftRCore (a k p : Int) : Out :=
  if k < 0 ∨ usizeMax ≤ k then .err .div0
  else if bitLen p ≤ k.toNat then .err .shift
  else .ok (a.tdiv (2 ^ k.toNat))

/-- `shift_l`. The Rust functions call each other; a second bounce (`k > p/2` and
    `p - k > p/2`) would recurse forever, `shift_no_bounce` shows it cannot happen. -/
def shiftL (a k p : Int) : Out :=
  if k ≤ p.tdiv 2 then shiftLCore a k p
  else if p - k ≤ p.tdiv 2 then shiftRCore a (p - k) p
  else .panic "shift: unbounded mutual recursion"

def shiftR (a k p : Int) : Out :=
  if k ≤ p.tdiv 2 then shiftRCore a k p
  else if p - k ≤ p.tdiv 2 then shiftLCore a (p - k) p
  else .panic "shift: unbounded mutual recursion"

def bitop (f : Nat → Nat → Nat) (a b p : Int) : Out :=
  if a < 0 ∨ b < 0 then .unmodelled else .ok (modulus (Int.ofNat (f a.toNat b.toNat)) p)

def bitOr := bitop (· ||| ·)
def bitAnd := bitop (· &&& ·)
def bitXor := bitop (· ^^^ ·)

/-- `fn val`. -/
def val (e p : Int) : Int :=
  let c := p.tdiv 2 + 1
  if c ≤ e ∧ e < p then e - p else e

def comparable (e p : Int) : Int := val (modulus e p) p
def normalize (e p : Int) : Int := if comparable e p = 0 then 0 else 1
def asBool (e p : Int) : Bool := normalize e p != 0
def not (e p : Int) : Int := rem (normalize e p + 1) 2
def boolAnd (a b p : Int) : Int := normalize a p * normalize b p
def boolOr (a b p : Int) : Int := rem (normalize a p + normalize b p + boolAnd a b p) 2
def eq (a b p : Int) : Int := if modulus a p = modulus b p then 1 else 0
def lesser (a b p : Int) : Int := if comparable a p < comparable b p then 1 else 0
def notEq (a b p : Int) : Int := not (eq a b p) p
def lesserEq (a b p : Int) : Int := boolOr (lesser a b p) (eq a b p) p
def greater (a b p : Int) : Int := not (lesserEq a b p) p
def greaterEq (a b p : Int) : Int := boolOr (greater a b p) (eq a b p) p

/-- Dispatcher used by the driver and by the value-propagation model. -/
def evalOp (op : String) (a b p : Int) : Out :=
  match op with
  | "add" => .ok (add a b p)
  | "sub" => .ok (sub a b p)
  | "mul" => .ok (mul a b p)
  | "div" => div a b p
  | "idiv" => idiv a b p
  | "mod" => modOp a b p
  | "pow" => pow a b p
  | "neg" => .ok (prefixSub a p)
  | "compl" => .ok (complement256 a p)
  | "shl" => shiftL a b p
  | "shr" => shiftR a b p
  | "or" => bitOr a b p
  | "and" => bitAnd a b p
  | "xor" => bitXor a b p
  | "not" => .ok (not a p)
  | "bor" => .ok (boolOr a b p)
  | "band" => .ok (boolAnd a b p)
  | "eq" => .ok (eq a b p)
  | "ne" => .ok (notEq a b p)
  | "lt" => .ok (lesser a b p)
  | "le" => .ok (lesserEq a b p)
  | "gt" => .ok (greater a b p)
  | "ge" => .ok (greaterEq a b p)
  | _ => .unmodelled

end Circomspect.Field
