/-
Model of the report flow (C02, C03, C17): `AnalysisRunner` (`cache_*`, `take_*`, `analyze_*`,
the report cache), the writers' filters (`cli/src/main.rs`), `CachedStdoutWriter`,
`SarifWriter::write_reports` and `main`'s exit logic.

Abstract parameters (`Project`): what the parser reported, which definitions of user files
exist, what CFG generation yields for a definition (`gen`: success flag and the reports of the
lifting/SSA stage, including the error report on failure), which other definitions the passes
look up (`lookups`) and what they report (`passes`).  The order in which definitions are
analysed is an arbitrary list (hash-map iteration order in the Rust code).
-/
namespace Circomspect.Runner

structure Report where
  id : String
  level : Nat          -- 0 info, 1 warning, 2 error (`MessageCategory`)
  located : Bool       -- has at least one primary label
  inUser : Bool        -- some primary label lies in a file named on the command line
  body : String        -- message, labels, notes (opaque)
  deriving DecidableEq, Repr

structure Project where
  parseReports : List Report
  known : String → Bool                    -- `*_asts.contains_key`
  gen : String → Bool × List Report        -- `generate_cfg`: (ok, reports incl. the error)
  lookups : String → List String           -- `ctx.template(..)`/`ctx.function(..)` calls of the passes
  passes : String → List Report
  /-- `analyze_main_component` (since the `fix:` 1121aa8): `none` when the program has no main component in a file named on the
      command line (or one with a tuple or anonymous component), otherwise what CFG generation and the two instantiation passes report
      for the statement `component main = T(...)` -/
  mainReports : Option (List Report)

structure St where
  cfgs : String → Bool                      -- is a CFG cached under this name?
  reps : String → Option (List Report)      -- the report cache

def St.init : St := { cfgs := fun _ => false, reps := fun _ => none }

def St.setCfg (s : St) (n : String) (b : Bool) : St :=
  { s with cfgs := fun m => if m = n then b else s.cfgs m }

/-- `append_*_reports`: `entry(name).or_default().append(reports)` -/
def St.appendRep (s : St) (n : String) (rs : List Report) : St :=
  { s with reps := fun m => if m = n then some ((s.reps n).getD [] ++ rs) else s.reps m }

/-- `take_*_reports`: `remove(name)` -/
def St.removeRep (s : St) (n : String) : St :=
  { s with reps := fun m => if m = n then none else s.reps m }

/-- `cache_template` / `cache_function` -/
def cacheDef (p : Project) (s : St) (n : String) : Bool × St :=
  if s.cfgs n then (true, s)
  else if (s.reps n).isSome then (false, s)           -- "already failed to generate the CFG"
  else if !p.known n then (false, s)                  -- unknown definition
  else
    let (ok, rs) := p.gen n
    let s := s.appendRep n rs                         -- reports cached on success *and* failure
    (ok, if ok then s.setCfg n true else s)

/-- `analyze_template` / `analyze_function` (after the `fix:`): returns the reports handed to
    the writer and the new state. -/
def analyzeDef (p : Project) (s : St) (n : String) : List Report × St :=
  let (ok, s) := cacheDef p s n
  let s := if ok then s.setCfg n false else s                                -- `take_*`
  let cached := (s.reps n).getD []
  let s := s.removeRep n
  if ok then
    let s := (p.lookups n).foldl (fun s m => (cacheDef p s m).2) s           -- passes look others up
    let s := s.setCfg n true                                                 -- `replace_*`
    (cached ++ p.passes n, s)
  else (cached, s)

/-- the batches handed to the writer, in order: parse reports, then one batch per definition, then the main component -/
def batches (p : Project) (order : List String) : List (List Report) :=
  let rec go (s : St) : List String → List (List Report)
    | [] => []
    | n :: rest => let (rs, s) := analyzeDef p s n; rs :: go s rest
  p.parseReports :: (go St.init order ++ p.mainReports.toList)

/-- everything offered to the writer -/
def offered (p : Project) (order : List String) : List Report := (batches p order).flatten

structure Opts where
  level : Nat
  allow : List String

/-- the three filters of `main` -/
def keep (o : Opts) (r : Report) : Bool :=
  decide (o.level ≤ r.level) && (!r.located || r.inUser) && !o.allow.contains r.id

/-- `CachedStdoutWriter`: what is displayed, batch by batch -/
def displayed (o : Opts) (p : Project) (order : List String) : List Report :=
  ((batches p order).map (fun b => b.filter (keep o))).flatten

/-- `reports_written()` -/
def written (o : Opts) (p : Project) (order : List String) : Nat :=
  ((batches p order).map (fun b => (b.filter (keep o)).length)).foldl (· + ·) 0

/-- `SarifWriter::write_reports(stdout_writer.reports(), ..)`: the same filters applied to the
    cached (unfiltered) reports -/
def sarif (o : Opts) (p : Project) (order : List String) : List Report :=
  (offered p order).filter (keep o)

def exitCode (o : Opts) (p : Project) (order : List String) : Nat :=
  if written o p order = 0 then 0 else 1

/-- the summary line for a given number of written reports -/
def summaryOf : Nat → String
  | 0 => "No issues found."
  | 1 => "1 issue found."
  | n => s!"{n} issues found."

def summary (o : Opts) (p : Project) (order : List String) : String :=
  summaryOf (written o p order)

end Circomspect.Runner
