/-
Model of the SSA construction (`static_single_assignment/mod.rs`, `control_flow_graph/ssa_impl.rs`), C14.

Phase 1, `insert_phi_statements`: a work list over blocks; for the block popped, every variable it writes
(including the targets of phi statements already inserted in it) gets a phi statement in every block of its
dominance frontier that does not have one yet, and such a block is pushed again.

Phase 2, `insert_ssa_variables`: the renaming over the dominator tree with a scoped environment.  What the
scoping means is that the version map at the entry of a block is the map at the end of its immediate
dominator; the model computes the maps by recursion on the block index (C12: the immediate dominator of a
block has a smaller index).  The version *numbers* given to definitions come from a global counter in the
code; here they are a parameter (`Versions`), so the theorems hold for every numbering (in particular the
code's), and the numbering of a real SSA dump can be fed to the model to reproduce its reads and phi
arguments.
-/
import Circomspect.Model.Ssa

namespace Circomspect.SsaBuild
open Circomspect.Ssa

/-- the variables that have a phi statement, per block -/
abbrev Phis := Nat → List Var

def hasPhi (P : Phis) (j : Nat) (v : Var) : Bool := (P j).contains v
def addPhi (P : Phis) (j : Nat) (v : Var) : Phis := fun k => if k = j then v :: P k else P k

/-- one frontier block: `for var in &variables_written { if !has_phi_statement(var) { insert; push } }` -/
def frontierStep (W : List Var) (j : Nat) (acc : Phis × List Nat) : Phis × List Nat :=
  W.foldl (fun acc v => if hasPhi acc.1 j v then acc else (addPhi acc.1 j v, acc.2 ++ [j])) acc

/-- `insert_phi_statements`: `wl` is the work list (a `Vec`, popped from the end); `none` when the fuel
    runs out before the list is empty -/
def insertPhis (df : Nat → List Nat) (written : Nat → List Var) : Nat → List Nat → Phis → Option Phis
  | 0, wl, P => if wl.isEmpty then some P else none
  | fuel + 1, wl, P =>
    match wl.getLast? with
    | none => some P
    | some cur =>
      let W := written cur ++ P cur       -- `variables_written` of the block, phi statements included
      let r := (df cur).foldl (fun acc j => frontierStep W j acc) (P, wl.dropLast)
      insertPhis df written fuel r.2 r.1

-- ---------------------------------------------------------------------------- phase 2: renaming

/-- all elements are present -/
def optAll {α : Type} : List (Option α) → Option (List α)
  | [] => some []
  | none :: _ => none
  | some x :: rest => match optAll rest with
    | none => none
    | some xs => some (x :: xs)

/-- a statement of the CFG before SSA conversion, as far as SSA is concerned: the local it assigns, the
    locals it reads, and whether it is an element-wise update `v[..] = e` (which also reads `v` itself,
    with the "first assignment to the array" rule when `v` has no version yet) -/
structure PStmt where
  target : Option Var
  reads : List Var
  upd : Bool
  deriving Repr, DecidableEq, Inhabited

structure PBlock where
  stmts : List PStmt
  preds : List Nat
  succs : List Nat
  deriving Repr, Inhabited

structure PCfg where
  params : List Var
  blocks : List PBlock
  deriving Repr

def PCfg.block (c : PCfg) (i : Nat) : PBlock := c.blocks.getD i default

/-- the variables written by the statements of block `i` (`variables_written` before any phi is inserted) -/
def written (c : PCfg) (i : Nat) : List Var := (c.block i).stmts.filterMap (·.target)

/-- the version numbers handed out by the global counter of the code: to the phi statement for `v` in block
    `i`, to the target of statement `k` of block `i`, and to the implicit read of a not yet assigned array -/
structure Versions where
  phi : Nat → Var → Nat
  def_ : Nat → Nat → Nat
  imp : Nat → Nat → Nat

/-- the version of the array an element-wise update reads -/
def updRead (V : Versions) (i k : Nat) (m : VMap) (v : Var) : Nat := (m v).getD (V.imp i k)

/-- `visit_expression` / `insert_ssa_variables` on one statement: every read gets the current version (none:
    `UndefinedVariableError`), the target a new one -/
def renameStmt (V : Versions) (i k : Nat) (m : VMap) (s : PStmt) : Option Stmt :=
  match optAll (s.reads.map (fun r => (m r).map (fun n => (r, n)))) with
  | none => none
  | some rs =>
    let imp : List VVar := match s.upd, s.target with
      | true, some v => [(v, updRead V i k m v)]
      | _, _ => []
    some { isPhi := false, target := s.target.map (fun v => (v, V.def_ i k)), reads := imp ++ rs, implicit := imp }

/-- the version map after statement `k` of block `i` -/
def stepMap (V : Versions) (i k : Nat) (m : VMap) (s : PStmt) : VMap :=
  let m1 : VMap := match s.upd, s.target with
    | true, some v => if m v = none then m.set v (V.imp i k) else m
    | _, _ => m
  match s.target with
  | some v => m1.set v (V.def_ i k)
  | none => m1

def stepMaps (V : Versions) (i : Nat) : Nat → VMap → List PStmt → VMap
  | _, m, [] => m
  | k, m, s :: rest => stepMaps V i (k + 1) (stepMap V i k m s) rest

def renameStmts (V : Versions) (i : Nat) : Nat → VMap → List PStmt → Option (List Stmt)
  | _, _, [] => some []
  | k, m, s :: rest =>
    match renameStmt V i k m s with
    | none => none
    | some s' =>
      match renameStmts V i (k + 1) (stepMap V i k m s) rest with
      | none => none
      | some rest' => some (s' :: rest')

/-- the map after the phi statements of block `i` -/
def phiMap (V : Versions) (P : Phis) (i : Nat) (m : VMap) : VMap := (P i).foldl (fun m v => m.set v (V.phi i v)) m

/-- the version map at the end of block `i`, given the map at its entry -/
def blockOut (V : Versions) (c : PCfg) (P : Phis) (i : Nat) (m : VMap) : VMap :=
  stepMaps V i 0 (phiMap V P i m) (c.block i).stmts

/-- the version map at the entry of block `i`: the scoped environment of the walk over the dominator tree
    is the environment at the end of the immediate dominator (`idom i < i`, C12) -/
def insOf (V : Versions) (c : PCfg) (P : Phis) (idom : Nat → Nat) : Nat → VMap
  | i => if h : 0 < i ∧ idom i < i then blockOut V c P (idom i) (insOf V c P idom (idom i)) else entryMap c.params
termination_by i => i
decreasing_by exact h.2

def outOfB (V : Versions) (c : PCfg) (P : Phis) (idom : Nat → Nat) (i : Nat) : VMap :=
  blockOut V c P i (insOf V c P idom i)

/-- the arguments of the phi statement for `v` in block `i`: `update_phi_statements`, called with the
    environment at the end of every predecessor -/
def phiArgs (V : Versions) (c : PCfg) (P : Phis) (idom : Nat → Nat) (i : Nat) (v : Var) : List VVar :=
  ((c.block i).preds.filterMap (fun p => (outOfB V c P idom p v).map (fun k => (v, k)))).eraseDups

def phiStmts (V : Versions) (c : PCfg) (P : Phis) (idom : Nat → Nat) (i : Nat) : List Stmt :=
  (P i).map (fun v => { isPhi := true, target := some (v, V.phi i v), reads := phiArgs V c P idom i v, implicit := [] })

/-- the SSA form of the CFG (`none`: a read of a local that has no version, `UndefinedVariableError`) -/
def build (V : Versions) (c : PCfg) (P : Phis) (idom : Nat → Nat) : Option Cfg :=
  match optAll ((List.range c.blocks.length).map (fun i =>
      (renameStmts V i 0 (phiMap V P i (insOf V c P idom i)) (c.block i).stmts).map (fun ss =>
        ({ stmts := phiStmts V c P idom i ++ ss, preds := (c.block i).preds, succs := (c.block i).succs } : Block)))) with
  | none => none
  | some bs => some { params := c.params, blocks := bs }

end Circomspect.SsaBuild
