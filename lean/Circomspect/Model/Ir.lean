/-
The intermediate representation of `program_structure/src/intermediate_representation/ir.rs`
with the two pieces of metadata that C06/C07/C20 are about: the value (`ValueReduction`) and the
degree range (`DegreeRange`) attached to every expression node and to substitutions.
Expression lists are a mutual inductive so that all functions over the IR are structurally
recursive.
-/
namespace Circomspect.Ir

inductive Val
  | bool (b : Bool)
  | fe (n : Int)
  deriving DecidableEq, Repr, Inhabited

/-- `Degree`: 0 constant, 1 linear, 2 quadratic, 3 non-quadratic -/
abbrev Deg := Nat   -- (functions over degrees are stated over `Nat` so that `omega` applies)
abbrev Range := Nat × Nat

structure Ann where
  val : Option Val := none
  deg : Option Range := none
  deriving DecidableEq, Repr, Inhabited

structure VName where
  name : String
  suffix : Option String
  version : Option Nat
  deriving DecidableEq, Repr, Inhabited

inductive VType | local_ | signal | component
  deriving DecidableEq, Repr, Inhabited

mutual
inductive Expr
  | infix (a : Ann) (op : String) (l r : Expr)
  | prefix (a : Ann) (op : String) (e : Expr)
  | switch (a : Ann) (c t f : Expr)
  | var (a : Ann) (v : VName)
  | num (a : Ann) (n : Int)
  | call (a : Ann) (name : String) (args : Exprs)
  | arr (a : Ann) (vals : Exprs)
  | acc (a : Ann) (v : VName) (access : Accs)
  | upd (a : Ann) (v : VName) (access : Accs) (rhe : Expr)
  | phi (a : Ann) (args : List VName)
inductive Exprs
  | nil
  | cons (e : Expr) (rest : Exprs)
inductive Acc
  | idx (e : Expr)
  | cmp (name : String)
inductive Accs
  | nil
  | cons (a : Acc) (rest : Accs)
end

instance : Inhabited Expr := ⟨.num {} 0⟩
instance : Inhabited Acc := ⟨.cmp ""⟩
instance : Inhabited Exprs := ⟨.nil⟩
instance : Inhabited Accs := ⟨.nil⟩

def Expr.ann : Expr → Ann
  | .infix a _ _ _ => a
  | .prefix a _ _ => a
  | .switch a _ _ _ => a
  | .var a _ => a
  | .num a _ => a
  | .call a _ _ => a
  | .arr a _ => a
  | .acc a _ _ => a
  | .upd a _ _ _ => a
  | .phi a _ => a

def Exprs.toList : Exprs → List Expr
  | .nil => []
  | .cons e r => e :: r.toList

def Exprs.ofList : List Expr → Exprs
  | [] => .nil
  | e :: r => .cons e (Exprs.ofList r)

def Accs.ofList : List Acc → Accs
  | [] => .nil
  | a :: r => .cons a (Accs.ofList r)

inductive LogArg
  | str
  | expr (e : Expr)

inductive Stmt
  | decl (names : List VName) (ty : VType) (dims : List Expr)
  | ite (cond : Expr)
  | ret (value : Expr)
  | sub (a : Ann) (v : VName) (ty : Option VType) (op : String) (rhe : Expr)    -- `a`: the statement's own metadata
  | ceq (l r : Expr)
  | log (args : List LogArg)
  | assert (arg : Expr)

instance : Inhabited Stmt := ⟨.ret default⟩

structure Block where
  stmts : List Stmt
  npreds : Nat := 0          -- number of predecessors of the block (value propagation compares it with the arity of a phi)
  doms : List Nat := []      -- the blocks that dominate this one (the pre-pass of value propagation asks whether an assignment comes first)
  conds : List Nat := []     -- `get_join_conditions`: the blocks ending in an if statement on the paths from the immediate dominator to this block
  deriving Inhabited

structure Cfg where
  isFunction : Bool
  params : List VName
  blocks : List Block

end Circomspect.Ir
