/-
Model of `static_single_assignment/dominator_tree.rs` (C15).

Sets of node indices (`HashSet<usize>`) are characteristic functions `Nat → Bool`; the vector
`dominators` is a function from node to set.  The `while !done` loop takes fuel and returns
`none` when it runs out (`C15_terminates` shows `n*n + 1` passes always suffice); the two
`assert!`s are the outcomes `.panic`.  The iteration order over `idom_candidates` (a hash set)
is a parameter of `idomOf`.
-/
import Circomspect.Spec.Graph

namespace Circomspect.Dominators
open Circomspect.Graph

abbrev Sets := Nat → Nat → Bool

def update (D : Sets) (i : Nat) (s : Nat → Bool) : Sets := fun k => if k = i then s else D k

/-- `new_dominators`: `(0..n)` intersected with the sets of all predecessors, plus `i` -/
def newDom (g : Graph) (D : Sets) (i : Nat) : Nat → Bool :=
  fun d => d == i || (decide (d < g.n) && (g.pred i).all (fun j => D j d))

/-- `new_dominators != dominators[i]` (both are subsets of `0..n`) -/
def differs (n : Nat) (s t : Nat → Bool) : Bool := (List.range n).any (fun d => s d != t d)

def init (g : Graph) : Sets := fun i d => if i = 0 then d == 0 else decide (d < g.n)

/-- one execution of the body of the `while` loop: `for i in 1..n` with in-place updates -/
def pass (g : Graph) (D : Sets) : Sets × Bool :=
  (List.range' 1 (g.n - 1)).foldl
    (fun (acc : Sets × Bool) i =>
      let nw := newDom g acc.1 i
      if differs g.n nw (acc.1 i) then (update acc.1 i nw, true) else acc)
    (D, false)

def iterate (g : Graph) : Nat → Sets → Option Sets
  | 0, _ => none
  | fuel + 1, D =>
    let r := pass g D
    if r.2 then iterate g fuel r.1 else some r.1

/-- `compute_dominators` -/
def computeDominators (g : Graph) : Option Sets := iterate g (g.n * g.n + 1) (init g)

def members (n : Nat) (s : Nat → Bool) : List Nat := (List.range n).filter s

inductive IdomOut | none | some (j : Nat) | panic
  deriving DecidableEq, Repr

/-- the body of the `for i` loop of `compute_immediate_dominators` for one node; `order` is the
    iteration order of the hash set `idom_candidates` -/
def idomOf (g : Graph) (D : Sets) (i : Nat) (order : List Nat) : IdomOut :=
  let cands := (members g.n (D i)).filter (· != i)
  let cands :=
    if cands.length > 1 then
      let all : Nat → Bool := order.foldl
        (fun (all : Nat → Bool) j =>
          if all j then all                      -- `all_dominators` is upwards closed: skip
          else fun k => (D j k && k != j && decide (k < g.n)) || all k)
        (fun _ => false)
      cands.filter (fun k => !all k)
    else cands
  if cands.length > 1 then .panic               -- `assert!(idom_candidates.len() <= 1)`
  else match cands with
    | [] => .none
    | j :: _ => .some j

/-- candidates in increasing order (one possible hash order) -/
def candidates (g : Graph) (D : Sets) (i : Nat) : List Nat := (members g.n (D i)).filter (· != i)

def idoms (g : Graph) (D : Sets) : Nat → IdomOut := fun i => idomOf g D i (candidates g D i)

/-- `dominator_successors` -/
def children (g : Graph) (idom : Nat → IdomOut) (j : Nat) : List Nat :=
  (List.range g.n).filter (fun i => idom i == .some j)

/-- the `while Some(k) != immediate_dominators[i]` walk from predecessor `j` of `i`; returns the
    nodes `k` that receive `i` in their frontier. Fuel `n + 1`. -/
def walk (idom : Nat → IdomOut) (i : Nat) : Nat → Nat → List Nat
  | 0, _ => []
  | fuel + 1, k =>
    if idom i == .some k then []
    else k :: (match idom k with
      | .some p => walk idom i fuel p
      | _ => [])

/-- `basic_blocks[i].predecessors().len() > 1` (a hash set: at least two distinct predecessors) -/
def isJoin (g : Graph) (i : Nat) : Bool := (g.pred i).any (fun a => (g.pred i).any (fun b => a != b))

/-- `compute_dominance_frontier`: `i ∈ frontier k` -/
def inFrontier (g : Graph) (idom : Nat → IdomOut) (k i : Nat) : Bool :=
  decide (i < g.n) && isJoin g i &&
    (g.pred i).any (fun j => (walk idom i (g.n + 1) j).contains k)

end Circomspect.Dominators
