import Circomspect.Model.Field
import Circomspect.Spec.Field
import Circomspect.Model.Strip
import Circomspect.Spec.Strip
import Circomspect.Props.C16
import Circomspect.Gen.ImplTables
