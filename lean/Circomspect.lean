import Circomspect.Model.Field
